"""C19 / C20: subscription registry (spec/Registry.tla, RegistryLock.tla, RegistryTrace.tla)."""
import json
import os

import vlib

CFG = """SPECIFICATION Spec
CONSTANTS
  Procs = {procs}
  MaxOps = {maxops}
  Ids = {{"a", "b"}}
  EvIds = {evids}
  Pool <- {pool}
  InitRegs <- {inits}
  SelKeys <- MCSelKeys
  EvVals <- MCEvVals
INVARIANTS
  TypeOK RegistryExact NoDup AtMostOncePerPublish CleanupAtMostOnce CleanupIffRemoved
  FailedOnlyAfterFailure IdleHasNoFailed {emit}
PROPERTIES
  NoDeliveryAfterRemoval PublishDelivers RemovalPermanent DeliveredAppendOnly
CHECK_DEADLOCK FALSE
{view}
"""


def cfg(procs, maxops, pool, inits, emit=True, evids='{"e1", "e2"}', view=False):
    return CFG.format(procs="{" + ", ".join(str(p) for p in procs) + "}", maxops=maxops, pool=pool, inits=inits,
                      emit="Emit" if emit else "", evids=evids, view="VIEW NoHistView" if view else "")


def model_and_vectors(ctx, procs, maxops, pool, inits, evids='{"e1", "e2"}', timeout=900):
    res = vlib.run_tlc(ctx, "MCRegistry", cfg(procs, maxops, pool, inits, evids=evids), timeout=timeout, tag="@@VEC")
    vlib.require_clean(res, "Registry (%s, %s procs, %s ops)" % (pool, len(procs), maxops))
    uni = (res.mark("@@UNI") or [None])[0]
    if uni is None:
        raise vlib.MachineryError("MCRegistry did not export its universe")
    return res.vecs, uni


def replay(ctx, vecs, uni, label):
    up = os.path.join(ctx.scratch, "uni-%s.json" % label)
    vp = os.path.join(ctx.scratch, "vec-%s.json" % label)
    with open(up, "w") as fh:
        json.dump(uni, fh)
    with open(vp, "w") as fh:
        json.dump(vecs, fh)
    rep = vlib.run_harness_json(ctx, "registry", ["replay", "-universe", up, "-vectors", vp], timeout=1800)
    absorb(ctx, rep, label)
    return rep, up


def absorb(ctx, rep, label):
    ctx.evaluations += rep["evaluations"]
    for h in rep.get("nontrivial_hashes") or []:
        ctx.nontrivial.add(h)
    for s in rep.get("samples") or []:
        ctx.add_sample({"from": label, "case": s})
    for m in rep["mismatches"]:
        ctx.violations.append({"from": label, "what": m["what"], "step": m.get("step"), "case": m["case"]})
    cl = ctx.extra.setdefault("classes", {})
    for k, v in (rep.get("classes") or {}).items():
        cl[k] = cl.get(k, 0) + v


def judge(ctx, tracefile, label, timeout=900):
    """RegistryTrace judges a file of concatenated traces. On rejection the failing trace is cut out,
    reported, and the rest is judged again (so one bad trace does not hide the others)."""
    with open(tracefile) as fh:
        lines = [ln for ln in fh.read().splitlines() if ln.strip()]
    header, body = lines[0], lines[1:]
    traces = []
    for ln in body:
        if '"b":"init"' in ln:
            traces.append([])
        traces[-1].append(ln)
    rejected = []
    ok = 0
    # subscription requests of free-running goroutines are also recorded by start and return: where every one of
    # them passed its in-lock point those two records say nothing more and are dropped; a trace with one that did
    # not is judged by RegistryTraceCalls.tla, where the registration is a step between start and return
    plain = []
    for t in traces:
        if any('"b":"subret"' in ln and '"seen":false' in ln for ln in t):
            if not judge_calls(ctx, header, t):
                rejected.append({"trace": [json.loads(x) for x in t], "unexplained_record": "(a subscription request returned "
                                 "without its critical section having been seen; no placement of the registration between its "
                                 "start and its return explains the rest)"})
            else:
                ok += 1
        else:
            plain.append([ln for ln in t if '"b":"subcall"' not in ln and '"b":"subret"' not in ln])
    traces = plain
    for _round in range(6):
        if not traces:
            break
        path = os.path.join(ctx.scratch, "trace.ndjson")
        with open(path, "w") as fh:
            fh.write(header + "\n")
            for t in traces:
                fh.write("\n".join(t) + "\n")
        res = vlib.run_tlc(ctx, "RegistryTrace", "Registry_trace.cfg", extra_files=[path], workers=1, timeout=timeout,
                           tag="@@REJ")
        if res.vecs:
            consumed = res.vecs[0]["consumed"]
            # locate the trace containing the first unexplained record (record index consumed+1, header is 1)
            idx = consumed + 1 - 1  # 1-based index into body lines
            n = 0
            bad = None
            for ti, t in enumerate(traces):
                if n + len(t) >= idx:
                    bad = ti
                    break
                n += len(t)
            if bad is None:
                raise vlib.MachineryError("cannot locate rejected record %s" % consumed)
            step = idx - n
            rejected.append({"trace": [json.loads(x) for x in traces[bad]], "unexplained_record": step})
            ok += bad
            traces = traces[bad + 1:]
            continue
        if res.error or res.rc != 0:
            # an invariant / action property of Registry violated along a recorded behaviour
            if res.violated:
                rejected.append({"trace": "(see TLC output)", "violated": res.violated, "tlc": res.lines[-30:]})
                break
            raise vlib.MachineryError("RegistryTrace failed: %s\n%s" % (res.error, "\n".join(res.lines[-30:])))
        ok += len(traces)
        traces = []
        break
    ctx.traces += ok
    for r in rejected:
        ctx.violations.append({"from": label, "what": "recorded behaviour is not a behaviour of Registry.tla "
                               "(first unexplained record %s)" % r.get("unexplained_record", r.get("violated")),
                               "case": r})
    return ok, rejected


def judge_calls(ctx, header, trace):
    path = os.path.join(ctx.scratch, "trace.ndjson")
    with open(path, "w") as fh:
        fh.write(header + "\n" + "\n".join(trace) + "\n")
    res = vlib.run_tlc(ctx, "RegistryTraceCalls", "Registry_trace_calls.cfg", extra_files=[path], workers=1, timeout=600, tag="@@REJ")
    if res.vecs or res.violated:
        return False
    if res.error or res.rc != 0:
        raise vlib.MachineryError("RegistryTraceCalls failed: %s\n%s" % (res.error, "\n".join(res.lines[-20:])))
    return True


def calls_self_test(ctx, header):
    """RegistryTraceCalls must be able to say both things (pool: subscriber 2 matches "a" and never fails)."""
    h = json.loads(header)
    msg = msg_of(h, 2, "e1")
    js = lambda r: json.dumps(r, separators=(",", ":"))
    good = [{"p": 0, "b": "init", "reg": []}, {"p": 1, "b": "subcall", "s": 2},
            {"p": 2, "b": "pub1", "id": "a", "ev": "e1", "cnt": 1, "err": False, "sent": [[2, msg]], "reg": [2]},
            {"p": 2, "b": "pub2", "cleaned": [], "reg": [2]}, {"p": 1, "b": "subret", "s": 2, "seen": False}]
    bad = [{"p": 0, "b": "init", "reg": []}, {"p": 1, "b": "subcall", "s": 2}, {"p": 1, "b": "subret", "s": 2, "seen": False},
           {"p": 2, "b": "unsub", "id": "a", "cnt": 0, "cleaned": [], "reg": []}]
    if not judge_calls(ctx, header, [js(r) for r in good]):
        raise vlib.MachineryError("RegistryTraceCalls self-test: a registration between start and return was not accepted")
    if judge_calls(ctx, header, [js(r) for r in bad]):
        raise vlib.MachineryError("RegistryTraceCalls self-test: an unsubscribe missing a subscriber whose request had returned was accepted")
    ctx.extra["calls_judge_self_test"] = "1 accepted, 1 rejected as expected"


def record_and_judge(ctx, up, mode, args, label, timeout=900):
    out = os.path.join(ctx.scratch, "rec-%s.ndjson" % label)
    rep = vlib.run_harness_json(ctx, "registry", [mode, "-universe", up, "-out", out] + args, timeout=timeout)
    absorb(ctx, rep, label)
    ok, rej = judge(ctx, out, label, timeout=timeout)
    return rep, ok, rej


# ---------------------------------------------------------------- probes: operations started inside callbacks

def msg_of(header, s, ev):
    """Registry!MsgOf for hand-written records."""
    pe = header["pool"][s - 1]
    shown = lambda k: k[2] in ("", "arg") or (k[2] == "skip" and not pe["hide"]) or (k[2] == "incl" and pe["hide"])
    return [[k[0], {"k": "str", "v": pe["tag"]} if k[2] == "arg" else header["evVals"][ev][k[1]]] for k in header["selKeys"][pe["sel"]] if shown(k)]


def _op_blocks(o, p, log):
    """The blocks of one operation with what was observed for it."""
    mine = [e for e in log if e["op"] == ("outer" if p == 1 else "inner")]
    sent = [[e["s"], e["msg"]] for e in mine if e["kind"] == "send"]
    cleaned = [e["s"] for e in mine if e["kind"] == "cleanup"]
    if o["kind"] == "sub":
        b = {"p": p, "b": "sub", "s": o["s"]}
        if sent:
            b["sent"] = sent
        if cleaned:
            b["cleaned"] = cleaned
        return [b]
    if o["kind"] == "unsub":
        b = {"p": p, "b": "unsub", "id": o["id"], "cnt": o["cnt"], "cleaned": cleaned}
        if sent:
            b["sent"] = sent
        return [b]
    return [{"p": p, "b": "pub1", "id": o["id"], "ev": o["ev"], "cnt": o["cnt"], "err": o["err"], "sent": sent},
            {"p": p, "b": "pub2", "cleaned": cleaned}]


def _merges(a, b):
    if not a:
        return [list(b)]
    if not b:
        return [list(a)]
    return [[a[0]] + m for m in _merges(a[1:], b)] + [[b[0]] + m for m in _merges(a, b[1:])]


def _views(events):
    """What each subscriber saw, in its own order: (operation, send|cleanup)."""
    v = {}
    for op, kind, s in events:
        v.setdefault(s, []).append((op, kind))
    return v


def probe_candidates(rec):
    """Every order of the blocks of the two overlapping operations that gives each subscriber the sequence of
    calls it actually saw. (The inner operation ran entirely inside a callback of the outer one, so neither has to
    come first; a subscriber's own view is what the property's 'nothing afterwards' is about.)"""
    seen = _views([("outer" if e["op"] == "outer" else "inner", e["kind"], e["s"]) for e in rec["log"]])
    out = []
    for m in _merges(_op_blocks(rec["outer"], 1, rec["log"]), _op_blocks(rec["inner"], 2, rec["log"])):
        ev = []
        for b in m:
            who = "outer" if b["p"] == 1 else "inner"
            ev += [(who, "send", x[0]) for x in b.get("sent", [])]
            ev += [(who, "cleanup", x) for x in b.get("cleaned", [])]
        if _views(ev) == seen:
            m = [dict(b) for b in m]
            m[-1]["reg"] = rec["reg"]
            out.append(m)
    return out


def judge_probe(ctx, header, rec, label):
    """True if some order of the two operations' blocks is a behaviour of Registry.tla."""
    cands = probe_candidates(rec)
    for i, m in enumerate(cands):
        path = os.path.join(ctx.scratch, "trace.ndjson")
        with open(path, "w") as fh:
            fh.write(json.dumps(header, separators=(",", ":")) + "\n")
            fh.write(json.dumps({"p": 0, "b": "init", "reg": rec["init"]}, separators=(",", ":")) + "\n")
            for b in m:
                fh.write(json.dumps(b, separators=(",", ":")) + "\n")
        res = vlib.run_tlc(ctx, "RegistryTrace", "Registry_trace.cfg", extra_files=[path], workers=1, timeout=300, tag="@@REJ")
        if res.vecs or res.violated:
            continue
        if res.error or res.rc != 0:
            raise vlib.MachineryError("RegistryTrace failed on a probe (%s): %s\n%s" % (label, res.error, "\n".join(res.lines[-20:])))
        return True, len(cands)
    return False, len(cands)


PROBE_FIXTURES = [
    # Unsubscribe("a") over [1, 2] releasing the lock around each clean-up; a publish of "a" runs during the
    # clean-up of 2 and reaches 1 only: no order of the two calls gives that.
    ("lock released around each clean-up", False,
     {"init": [1, 2], "outer": {"kind": "unsub", "id": "a", "cnt": 1, "err": False},
      "inner": {"kind": "pub", "id": "a", "ev": "e1", "cnt": 1, "err": True}, "k": 1, "at": "cleanup", "at_s": 2,
      "log": [{"op": "outer", "kind": "cleanup", "s": 2}, {"op": "inner", "kind": "send", "s": 1, "msg": "MSG1"},
              {"op": "inner", "kind": "cleanup", "s": 1}], "reg": []}),
    # both removed under the lock, the clean-ups called after it is released; the publish during the first
    # clean-up finds nobody: unsubscribe, then publish.
    ("clean-ups after the removals", True,
     {"init": [1, 2], "outer": {"kind": "unsub", "id": "a", "cnt": 2, "err": False},
      "inner": {"kind": "pub", "id": "a", "ev": "e1", "cnt": 0, "err": False}, "k": 1, "at": "cleanup", "at_s": 2,
      "log": [{"op": "outer", "kind": "cleanup", "s": 2}, {"op": "outer", "kind": "cleanup", "s": 1}], "reg": []}),
    # a publish delivering from a list taken earlier: 2 is unsubscribed and cleaned up during the delivery to 1
    # and is sent the event afterwards.
    ("delivery from a stale list", False,
     {"init": [1, 2], "outer": {"kind": "pub", "id": "a", "ev": "e1", "cnt": 2, "err": True},
      "inner": {"kind": "unsub", "id": "a", "cnt": 2, "err": False}, "k": 1, "at": "send", "at_s": 1,
      "log": [{"op": "outer", "kind": "send", "s": 1, "msg": "MSG1"}, {"op": "inner", "kind": "cleanup", "s": 2},
              {"op": "inner", "kind": "cleanup", "s": 1}, {"op": "outer", "kind": "send", "s": 2, "msg": "MSG2"}], "reg": []}),
]


def probes(ctx, up, label, fixtures=True):
    """Operations started from inside callbacks that run with the registry lock free (harness mode probe)."""
    out = os.path.join(ctx.scratch, "probe-%s.json" % label)
    rep = vlib.run_harness_json(ctx, "registry", ["probe", "-universe", up, "-out", out], timeout=1800)
    absorb(ctx, rep, label)
    data = json.load(open(out))
    header, fired = data["universe"], data["fired"] or []
    ex = ctx.extra.setdefault("callback_probes", {})
    ex[label] = {k: rep.get("extra", {}).get(k) for k in ("probe_runs", "callbacks_seen", "callbacks_with_lock_free",
                                                          "callbacks_with_lock_free_by_kind", "probes_fired")}
    # spread over the fired probes: one per (outer kind, inner kind, callback kind) first
    order, seen = [], set()
    for r in fired:
        key = (r["outer"]["kind"], r["inner"]["kind"], r["at"])
        if key not in seen:
            seen.add(key)
            order.append(r)
    order += [r for r in fired if r not in order]
    judged = bad = 0
    for r in order[:40]:
        okay, n = judge_probe(ctx, header, r, label)
        judged += 1
        ctx.evaluations += 1
        if not okay:
            bad += 1
            ctx.violations.append({"from": label, "what": "an operation run inside a callback of another one (the registry lock was "
                                   "free there): no order of the two operations' blocks that gives every subscriber what it saw is "
                                   "a behaviour of Registry.tla (%d orders fit the subscribers' views)" % n, "case": r})
            if bad >= 3:
                break
    ex[label]["probes_judged"] = judged
    if fixtures:
        # the judge must be able to say both things
        pool = header["pool"]
        msgs = {}
        for s in (1, 2):
            msgs["MSG%d" % s] = msg_of(header, s, "e1")
        for name, want, rec in PROBE_FIXTURES:
            if not (pool[0]["pat"] == "a" and pool[1]["pat"] == "a" and pool[0]["failAt"] == 1 and pool[1]["failAt"] == 0):
                raise vlib.MachineryError("probe fixtures are written for a pool starting with two 'a' subscribers, the first failing at once")
            rec = json.loads(json.dumps(rec))
            for e in rec["log"]:
                if e.get("msg") in msgs:
                    e["msg"] = msgs[e["msg"]]
            got, _ = judge_probe(ctx, header, rec, "fixture")
            if got != want:
                raise vlib.MachineryError("probe judge self-test: '%s' should be %s" % (name, "accepted" if want else "rejected"))
        ex[label]["judge_self_test"] = "%d hand-written overlapping histories judged as expected (2 rejected, 1 accepted)" % len(PROBE_FIXTURES)


def negative_controls(ctx, up, vecs):
    """The binding must be able to fail: a flipped expectation must be reported by the replay,
    a corrupted recorded field must be rejected by the judge."""
    import copy
    # (1) flip one expectation
    v = None
    for cand in vecs:
        if any(b["b"] == "unsub" and b["cnt"] > 0 for b in cand["hist"]):
            v = copy.deepcopy(cand)
            break
    if v is None:
        raise vlib.MachineryError("no vector with a removing unsubscribe for the negative control")
    for b in v["hist"]:
        if b["b"] == "unsub" and b["cnt"] > 0:
            b["cnt"] -= 1
            break
    vp = os.path.join(ctx.scratch, "neg-vec.json")
    with open(vp, "w") as fh:
        json.dump([v], fh)
    rep = vlib.run_harness_json(ctx, "registry", ["replay", "-universe", up, "-vectors", vp])
    if not rep["mismatches"]:
        raise vlib.MachineryError("negative control: replay accepted a vector with a wrong expected count")
    # (2) corrupt one recorded field
    out = os.path.join(ctx.scratch, "neg.ndjson")
    sub = vlib.Ctx(ctx.prop, ctx.tier)
    sub.scratch = ctx.scratch
    vlib.run_harness_json(sub, "registry", ["record", "-universe", up, "-out", out, "-n", "3", "-len", "10"])
    lines = open(out).read().splitlines()
    done = False
    for i, ln in enumerate(lines):
        rec = json.loads(ln)
        if rec.get("b") == "pub1" and rec.get("sent"):
            rec["sent"] = rec["sent"][:-1]
            lines[i] = json.dumps(rec, separators=(",", ":"))
            done = True
            break
    if not done:
        raise vlib.MachineryError("negative control: no delivery in the recorded traces")
    with open(out, "w") as fh:
        fh.write("\n".join(lines) + "\n")
    ok, rej = judge(sub, out, "negative-control")
    if not rej:
        raise vlib.MachineryError("negative control: judge accepted a trace with a dropped delivery")
    ctx.extra["negative_controls"] = "flipped expectation rejected by replay; dropped delivery rejected by RegistryTrace"


def run(ctx):
    if ctx.prop == "C19":
        run_c19(ctx)
    else:
        run_c20(ctx)


def run_c19(ctx):
    ctx.rule = ("direction A: every complete history of Registry.tla with one process (all operation sequences of the "
                "configured length over subscribe/publish/unsubscribe, 4-subscriber pools with exact/wildcard patterns and "
                "subscribers failing on their 1st/2nd delivery, several initial registries) is replayed on a real Root and "
                "compared block by block (deliveries in order with message content, counts, errors, clean-ups, registry); "
                "direction B: random longer histories recorded from the real code are judged by RegistryTrace.tla. "
                "non-trivial = history with at least one delivery and at least one removal; distinct = by content hash")
    quick = ctx.tier == "quick"
    plans = [("MCPoolA", "MCInitSome", 3 if quick else 4), ("MCPoolB", "MCInitEmpty", 3 if quick else 5)]
    if not quick:
        plans.append(("MCPoolB", "MCInitSome", 4))
    up = None
    allvecs = []
    for pool, inits, maxops in plans:
        vecs, uni = model_and_vectors(ctx, [1], maxops, pool, inits,
                                      evids='{"e1", "e2"}' if maxops <= 4 else '{"e1"}')
        rep, up = replay(ctx, vecs, uni, "replay-%s-%s-%d" % (pool, inits, maxops))
        allvecs = vecs if not allvecs else allvecs
        # direction B on this universe
        record_and_judge(ctx, up, "record", ["-n", "60" if quick else "600", "-len", "14" if quick else "24"],
                         "record-%s" % pool)
    # the exactly-once guarantees (one message per publish, one clean-up per removal) with a second caller between the two
    # phases of a publish: every block interleaving of two callers with one operation each, replayed through the gate scheduler
    vecs2, uni2 = model_and_vectors(ctx, [1, 2], 1, "MCPoolA", "MCInitSome", evids='{"e1"}', timeout=3000)
    rep2, up2 = replay(ctx, vecs2, uni2, "sched-replay-MCPoolA-2x1")
    # a publish or an unsubscribe started from inside a callback of another one, wherever a callback runs with the lock free
    probes(ctx, up2, "probe-MCPoolA")
    if not quick:
        negative_controls(ctx, up, vecs)
    ctx.exhaustive = True
    ctx.assumptions += [
        "subscribers are the harness' own Subscriber implementation (Match = exact id or '*'; Send fails on the k-th call)",
        "bounded: pools of 4 subscribers, 2 event ids, histories of the stated length; longer histories only sampled (direction B)",
        "event objects alternate between a Resolver implementation and a reflect-built struct",
    ]


LOCKCFG = """SPECIFICATION {spec}
CONSTANTS
  Procs = {procs}
  MaxOps = {maxops}
  Ids = {{"a"}}
  EvIds = {{"e1"}}
  Pool <- MCPoolC
  InitRegs <- {inits}
  SelKeys <- MCSelKeys
  EvVals <- MCEvVals
  Dev = {dev}
INVARIANTS
  TypeOK RegistryExact NoDup AtMostOncePerPublish CleanupAtMostOnce CleanupIffRemoved
  FailedOnlyAfterFailure MutualExclusion LockOwnerInside NoDeadlock
PROPERTIES
  RegistrySpec ReachesSeen NoDeliveryAfterUnsubReturned NoDeliveryAfterRemoval RemovalPermanent {live}
CHECK_DEADLOCK FALSE
{view}
"""


def lockcfg(procs, maxops, dev="{}", inits="MCInitC", live=False, view=True):
    return LOCKCFG.format(spec="LFairSpec" if live else "LSpec",
                          procs="{" + ", ".join(str(p) for p in procs) + "}", maxops=maxops, dev=dev, inits=inits,
                          live="AllReturn" if live else "", view="VIEW LockView" if view else "")


def run_c20(ctx):
    quick = ctx.tier == "quick"
    ctx.rule = ("(1) RegistryLock.tla (mutex-level transcription of root.go) model-checked: invariants, refinement of "
                "Registry.tla, real-time properties, deadlock, and under fairness termination; (2) every behaviour of "
                "Registry.tla for 2-3 concurrent processes (all programs x all block interleavings within the bound) "
                "replayed on the real Root through a gate scheduler at the verif points, compared block by block; "
                "(3) Go-side enumeration of all block schedules of all small programs, recorded and judged by "
                "RegistryTrace.tla; (4) free-running goroutines recorded in lock order and judged; (5) hook-free -race stress. "
                "non-trivial = behaviour with at least one delivery and one removal; distinct by content hash")
    # (1) the mutex-level model
    res = vlib.run_tlc(ctx, "MCRegistryLock", lockcfg([1, 2], 2), timeout=900)
    vlib.require_clean(res, "RegistryLock 2x2")
    if not quick:
        res = vlib.run_tlc(ctx, "MCRegistryLock", lockcfg([1, 2, 3], 1), timeout=1800)
        vlib.require_clean(res, "RegistryLock 3x1")
        res = vlib.run_tlc(ctx, "MCRegistryLock", lockcfg([1, 2], 1, view=False, inits="MCInitC"), timeout=1800)
        vlib.require_clean(res, "RegistryLock 2x1 without VIEW (refinement incl. outputs)")
        res = vlib.run_tlc(ctx, "MCRegistryLock", lockcfg([1, 2], 1, live=True, view=False), timeout=1800)
        vlib.require_clean(res, "RegistryLock liveness")
        res = vlib.run_tlc(ctx, "MCRegistryLock", lockcfg([1, 2, 3], 2), timeout=3000, workers=16)
        vlib.require_clean(res, "RegistryLock 3x2")
        # the properties are not vacuous: each named deviation of the algorithm is caught by the model
        caught = {}
        for dev in ("ForwardScan", "RemoveFailedByMatch", "NoPhase2Lock"):
            r = vlib.run_tlc(ctx, "MCRegistryLock", lockcfg([1, 2], 2, dev='{"%s"}' % dev), timeout=900, count_states=False)
            if not r.error:
                raise vlib.MachineryError("deviation %s is not caught by RegistryLock's properties" % dev)
            caught[dev] = r.violated or r.error
        ctx.extra["model_mutations_caught"] = caught
    # (2) TLC -> code, gated schedules
    plans = [([1, 2], 1, "MCPoolA", "MCInitSome", '{"e1"}')]
    if not quick:
        plans += [([1, 2], 2, "MCPoolC", "MCInitC", '{"e1"}'), ([1, 2, 3], 1, "MCPoolC", "MCInitC", '{"e1"}'),
                  ([1, 2], 1, "MCPoolB", "MCInitSome", '{"e1", "e2"}')]
    else:
        plans += [([1, 2, 3], 1, "MCPoolC", "MCInitEmpty", '{"e1"}')]
    up = None
    vecs = []
    for procs, maxops, pool, inits, evids in plans:
        vecs, uni = model_and_vectors(ctx, procs, maxops, pool, inits, evids=evids, timeout=3000)
        rep, up1 = replay(ctx, vecs, uni, "sched-replay-%s-%dx%d" % (pool, len(procs), maxops))
        up = up or up1
    # (2b) operations started inside callbacks that run with the registry lock free
    probes(ctx, up, "probe-MCPoolA")
    # (3) Go-side exhaustive schedules, judged by TLC
    record_and_judge(ctx, up, "sched", ["-procs", "2", "-ops", "1"], "go-sched-2x1", timeout=1800)
    if not quick:
        record_and_judge(ctx, up, "sched", ["-procs", "3", "-ops", "1", "-sample", "400"], "go-sched-3x1", timeout=3000)
        record_and_judge(ctx, up, "sched", ["-procs", "2", "-ops", "2", "-sample", "150"], "go-sched-2x2", timeout=3000)
    # (4) free-running, recorded in lock order
    record_and_judge(ctx, up, "stress", ["-iters", "40" if quick else "400", "-goroutines", "4", "-ops", "3"],
                     "stress", timeout=1800)
    with open(os.path.join(ctx.scratch, "rec-stress.ndjson")) as fh:
        calls_self_test(ctx, fh.readline().strip())
    # (5) hook-free race-detector stress
    rep = vlib.run_harness_json(ctx, "registry", ["race", "-universe", up, "-iters", "60" if quick else "1500",
                                                  "-goroutines", "8" if quick else "16", "-ops", "6"],
                                timeout=3000, race=True)
    if rep["_rc"] == 66 or "DATA RACE" in rep["_stderr"]:
        ctx.violations.append({"from": "race", "what": "data race reported by the Go race detector", "case": rep["_stderr"][-3000:]})
    absorb(ctx, rep, "race")
    if not quick:
        negative_controls(ctx, up, [v for v in vecs])
    ctx.assumptions += [
        "block interleavings are enumerated at the verif yield points; within a critical section the code runs alone (the lock is checked to be held at every in-lock point)",
        "the race detector is a dynamic tool: absence of a report is evidence for the explored schedules only",
        "bounded: 2-3 processes with 1-2 operations each for exhaustive parts",
    ]
