"""C19 / C20: subscription registry (spec/Registry.tla, RegistryLock.tla, RegistryTrace.tla)."""
import json
import os

import vlib

CFG = """SPECIFICATION Spec
CONSTANTS
  Procs = {procs}
  MaxOps = {maxops}
  Ids = {{"a", "b"}}
  EvIds = {evids}
  Pool <- {pool}
  InitRegs <- {inits}
  SelKeys <- MCSelKeys
  EvVals <- MCEvVals
INVARIANTS
  TypeOK RegistryExact NoDup AtMostOncePerPublish CleanupAtMostOnce CleanupIffRemoved
  FailedOnlyAfterFailure IdleHasNoFailed {emit}
PROPERTIES
  NoDeliveryAfterRemoval PublishDelivers RemovalPermanent DeliveredAppendOnly
CHECK_DEADLOCK FALSE
{view}
"""


def cfg(procs, maxops, pool, inits, emit=True, evids='{"e1", "e2"}', view=False):
    return CFG.format(procs="{" + ", ".join(str(p) for p in procs) + "}", maxops=maxops, pool=pool, inits=inits,
                      emit="Emit" if emit else "", evids=evids, view="VIEW NoHistView" if view else "")


def model_and_vectors(ctx, procs, maxops, pool, inits, evids='{"e1", "e2"}', timeout=900):
    res = vlib.run_tlc(ctx, "MCRegistry", cfg(procs, maxops, pool, inits, evids=evids), timeout=timeout, tag="@@VEC")
    vlib.require_clean(res, "Registry (%s, %s procs, %s ops)" % (pool, len(procs), maxops))
    uni = (res.mark("@@UNI") or [None])[0]
    if uni is None:
        raise vlib.MachineryError("MCRegistry did not export its universe")
    return res.vecs, uni


def replay(ctx, vecs, uni, label):
    up = os.path.join(ctx.scratch, "uni-%s.json" % label)
    vp = os.path.join(ctx.scratch, "vec-%s.json" % label)
    with open(up, "w") as fh:
        json.dump(uni, fh)
    with open(vp, "w") as fh:
        json.dump(vecs, fh)
    rep = vlib.run_harness_json(ctx, "registry", ["replay", "-universe", up, "-vectors", vp], timeout=1800)
    absorb(ctx, rep, label)
    return rep, up


def absorb(ctx, rep, label):
    ctx.evaluations += rep["evaluations"]
    for h in rep.get("nontrivial_hashes") or []:
        ctx.nontrivial.add(h)
    for s in rep.get("samples") or []:
        ctx.add_sample({"from": label, "case": s})
    for m in rep["mismatches"]:
        ctx.violations.append({"from": label, "what": m["what"], "step": m.get("step"), "case": m["case"]})
    cl = ctx.extra.setdefault("classes", {})
    for k, v in (rep.get("classes") or {}).items():
        cl[k] = cl.get(k, 0) + v


def judge(ctx, tracefile, label, timeout=900):
    """RegistryTrace judges a file of concatenated traces. On rejection the failing trace is cut out,
    reported, and the rest is judged again (so one bad trace does not hide the others)."""
    with open(tracefile) as fh:
        lines = [ln for ln in fh.read().splitlines() if ln.strip()]
    header, body = lines[0], lines[1:]
    traces = []
    for ln in body:
        if '"b":"init"' in ln:
            traces.append([])
        traces[-1].append(ln)
    rejected = []
    ok = 0
    for _round in range(6):
        if not traces:
            break
        path = os.path.join(ctx.scratch, "trace.ndjson")
        with open(path, "w") as fh:
            fh.write(header + "\n")
            for t in traces:
                fh.write("\n".join(t) + "\n")
        res = vlib.run_tlc(ctx, "RegistryTrace", "Registry_trace.cfg", extra_files=[path], workers=1, timeout=timeout,
                           tag="@@REJ")
        if res.vecs:
            consumed = res.vecs[0]["consumed"]
            # locate the trace containing the first unexplained record (record index consumed+1, header is 1)
            idx = consumed + 1 - 1  # 1-based index into body lines
            n = 0
            bad = None
            for ti, t in enumerate(traces):
                if n + len(t) >= idx:
                    bad = ti
                    break
                n += len(t)
            if bad is None:
                raise vlib.MachineryError("cannot locate rejected record %s" % consumed)
            step = idx - n
            rejected.append({"trace": [json.loads(x) for x in traces[bad]], "unexplained_record": step})
            ok += bad
            traces = traces[bad + 1:]
            continue
        if res.error or res.rc != 0:
            # an invariant / action property of Registry violated along a recorded behaviour
            if res.violated:
                rejected.append({"trace": "(see TLC output)", "violated": res.violated, "tlc": res.lines[-30:]})
                break
            raise vlib.MachineryError("RegistryTrace failed: %s\n%s" % (res.error, "\n".join(res.lines[-30:])))
        ok += len(traces)
        traces = []
        break
    ctx.traces += ok
    for r in rejected:
        ctx.violations.append({"from": label, "what": "recorded behaviour is not a behaviour of Registry.tla "
                               "(first unexplained record %s)" % r.get("unexplained_record", r.get("violated")),
                               "case": r})
    return ok, rejected


def record_and_judge(ctx, up, mode, args, label, timeout=900):
    out = os.path.join(ctx.scratch, "rec-%s.ndjson" % label)
    rep = vlib.run_harness_json(ctx, "registry", [mode, "-universe", up, "-out", out] + args, timeout=timeout)
    absorb(ctx, rep, label)
    ok, rej = judge(ctx, out, label, timeout=timeout)
    return rep, ok, rej


def negative_controls(ctx, up, vecs):
    """The binding must be able to fail: a flipped expectation must be reported by the replay,
    a corrupted recorded field must be rejected by the judge."""
    import copy
    # (1) flip one expectation
    v = None
    for cand in vecs:
        if any(b["b"] == "unsub" and b["cnt"] > 0 for b in cand["hist"]):
            v = copy.deepcopy(cand)
            break
    if v is None:
        raise vlib.MachineryError("no vector with a removing unsubscribe for the negative control")
    for b in v["hist"]:
        if b["b"] == "unsub" and b["cnt"] > 0:
            b["cnt"] -= 1
            break
    vp = os.path.join(ctx.scratch, "neg-vec.json")
    with open(vp, "w") as fh:
        json.dump([v], fh)
    rep = vlib.run_harness_json(ctx, "registry", ["replay", "-universe", up, "-vectors", vp])
    if not rep["mismatches"]:
        raise vlib.MachineryError("negative control: replay accepted a vector with a wrong expected count")
    # (2) corrupt one recorded field
    out = os.path.join(ctx.scratch, "neg.ndjson")
    sub = vlib.Ctx(ctx.prop, ctx.tier)
    sub.scratch = ctx.scratch
    vlib.run_harness_json(sub, "registry", ["record", "-universe", up, "-out", out, "-n", "3", "-len", "10"])
    lines = open(out).read().splitlines()
    done = False
    for i, ln in enumerate(lines):
        rec = json.loads(ln)
        if rec.get("b") == "pub1" and rec.get("sent"):
            rec["sent"] = rec["sent"][:-1]
            lines[i] = json.dumps(rec, separators=(",", ":"))
            done = True
            break
    if not done:
        raise vlib.MachineryError("negative control: no delivery in the recorded traces")
    with open(out, "w") as fh:
        fh.write("\n".join(lines) + "\n")
    ok, rej = judge(sub, out, "negative-control")
    if not rej:
        raise vlib.MachineryError("negative control: judge accepted a trace with a dropped delivery")
    ctx.extra["negative_controls"] = "flipped expectation rejected by replay; dropped delivery rejected by RegistryTrace"


def run(ctx):
    if ctx.prop == "C19":
        run_c19(ctx)
    else:
        run_c20(ctx)


def run_c19(ctx):
    ctx.rule = ("direction A: every complete history of Registry.tla with one process (all operation sequences of the "
                "configured length over subscribe/publish/unsubscribe, 4-subscriber pools with exact/wildcard patterns and "
                "subscribers failing on their 1st/2nd delivery, several initial registries) is replayed on a real Root and "
                "compared block by block (deliveries in order with message content, counts, errors, clean-ups, registry); "
                "direction B: random longer histories recorded from the real code are judged by RegistryTrace.tla. "
                "non-trivial = history with at least one delivery and at least one removal; distinct = by content hash")
    quick = ctx.tier == "quick"
    plans = [("MCPoolA", "MCInitSome", 3 if quick else 4), ("MCPoolB", "MCInitEmpty", 3 if quick else 5)]
    if not quick:
        plans.append(("MCPoolB", "MCInitSome", 4))
    up = None
    allvecs = []
    for pool, inits, maxops in plans:
        vecs, uni = model_and_vectors(ctx, [1], maxops, pool, inits,
                                      evids='{"e1", "e2"}' if maxops <= 4 else '{"e1"}')
        rep, up = replay(ctx, vecs, uni, "replay-%s-%s-%d" % (pool, inits, maxops))
        allvecs = vecs if not allvecs else allvecs
        # direction B on this universe
        record_and_judge(ctx, up, "record", ["-n", "60" if quick else "600", "-len", "14" if quick else "24"],
                         "record-%s" % pool)
    # the exactly-once guarantees (one message per publish, one clean-up per removal) with a second caller between the two
    # phases of a publish: every block interleaving of two callers with one operation each, replayed through the gate scheduler
    vecs2, uni2 = model_and_vectors(ctx, [1, 2], 1, "MCPoolA", "MCInitSome", evids='{"e1"}', timeout=3000)
    replay(ctx, vecs2, uni2, "sched-replay-MCPoolA-2x1")
    if not quick:
        negative_controls(ctx, up, vecs)
    ctx.exhaustive = True
    ctx.assumptions += [
        "subscribers are the harness' own Subscriber implementation (Match = exact id or '*'; Send fails on the k-th call)",
        "bounded: pools of 4 subscribers, 2 event ids, histories of the stated length; longer histories only sampled (direction B)",
        "event objects alternate between a Resolver implementation and a reflect-built struct",
    ]


LOCKCFG = """SPECIFICATION {spec}
CONSTANTS
  Procs = {procs}
  MaxOps = {maxops}
  Ids = {{"a"}}
  EvIds = {{"e1"}}
  Pool <- MCPoolC
  InitRegs <- {inits}
  SelKeys <- MCSelKeys
  EvVals <- MCEvVals
  Dev = {dev}
INVARIANTS
  TypeOK RegistryExact NoDup AtMostOncePerPublish CleanupAtMostOnce CleanupIffRemoved
  FailedOnlyAfterFailure MutualExclusion LockOwnerInside NoDeadlock
PROPERTIES
  RegistrySpec ReachesSeen NoDeliveryAfterUnsubReturned NoDeliveryAfterRemoval RemovalPermanent {live}
CHECK_DEADLOCK FALSE
{view}
"""


def lockcfg(procs, maxops, dev="{}", inits="MCInitC", live=False, view=True):
    return LOCKCFG.format(spec="LFairSpec" if live else "LSpec",
                          procs="{" + ", ".join(str(p) for p in procs) + "}", maxops=maxops, dev=dev, inits=inits,
                          live="AllReturn" if live else "", view="VIEW LockView" if view else "")


def run_c20(ctx):
    quick = ctx.tier == "quick"
    ctx.rule = ("(1) RegistryLock.tla (mutex-level transcription of root.go) model-checked: invariants, refinement of "
                "Registry.tla, real-time properties, deadlock, and under fairness termination; (2) every behaviour of "
                "Registry.tla for 2-3 concurrent processes (all programs x all block interleavings within the bound) "
                "replayed on the real Root through a gate scheduler at the verif points, compared block by block; "
                "(3) Go-side enumeration of all block schedules of all small programs, recorded and judged by "
                "RegistryTrace.tla; (4) free-running goroutines recorded in lock order and judged; (5) hook-free -race stress. "
                "non-trivial = behaviour with at least one delivery and one removal; distinct by content hash")
    # (1) the mutex-level model
    res = vlib.run_tlc(ctx, "MCRegistryLock", lockcfg([1, 2], 2), timeout=900)
    vlib.require_clean(res, "RegistryLock 2x2")
    if not quick:
        res = vlib.run_tlc(ctx, "MCRegistryLock", lockcfg([1, 2, 3], 1), timeout=1800)
        vlib.require_clean(res, "RegistryLock 3x1")
        res = vlib.run_tlc(ctx, "MCRegistryLock", lockcfg([1, 2], 1, view=False, inits="MCInitC"), timeout=1800)
        vlib.require_clean(res, "RegistryLock 2x1 without VIEW (refinement incl. outputs)")
        res = vlib.run_tlc(ctx, "MCRegistryLock", lockcfg([1, 2], 1, live=True, view=False), timeout=1800)
        vlib.require_clean(res, "RegistryLock liveness")
        res = vlib.run_tlc(ctx, "MCRegistryLock", lockcfg([1, 2, 3], 2), timeout=3000, workers=16)
        vlib.require_clean(res, "RegistryLock 3x2")
        # the properties are not vacuous: each named deviation of the algorithm is caught by the model
        caught = {}
        for dev in ("ForwardScan", "RemoveFailedByMatch", "NoPhase2Lock"):
            r = vlib.run_tlc(ctx, "MCRegistryLock", lockcfg([1, 2], 2, dev='{"%s"}' % dev), timeout=900, count_states=False)
            if not r.error:
                raise vlib.MachineryError("deviation %s is not caught by RegistryLock's properties" % dev)
            caught[dev] = r.violated or r.error
        ctx.extra["model_mutations_caught"] = caught
    # (2) TLC -> code, gated schedules
    plans = [([1, 2], 1, "MCPoolA", "MCInitSome", '{"e1"}')]
    if not quick:
        plans += [([1, 2], 2, "MCPoolC", "MCInitC", '{"e1"}'), ([1, 2, 3], 1, "MCPoolC", "MCInitC", '{"e1"}'),
                  ([1, 2], 1, "MCPoolB", "MCInitSome", '{"e1", "e2"}')]
    else:
        plans += [([1, 2, 3], 1, "MCPoolC", "MCInitEmpty", '{"e1"}')]
    up = None
    vecs = []
    for procs, maxops, pool, inits, evids in plans:
        vecs, uni = model_and_vectors(ctx, procs, maxops, pool, inits, evids=evids, timeout=3000)
        rep, up1 = replay(ctx, vecs, uni, "sched-replay-%s-%dx%d" % (pool, len(procs), maxops))
        up = up or up1
    # (3) Go-side exhaustive schedules, judged by TLC
    record_and_judge(ctx, up, "sched", ["-procs", "2", "-ops", "1"], "go-sched-2x1", timeout=1800)
    if not quick:
        record_and_judge(ctx, up, "sched", ["-procs", "3", "-ops", "1", "-sample", "400"], "go-sched-3x1", timeout=3000)
        record_and_judge(ctx, up, "sched", ["-procs", "2", "-ops", "2", "-sample", "150"], "go-sched-2x2", timeout=3000)
    # (4) free-running, recorded in lock order
    record_and_judge(ctx, up, "stress", ["-iters", "40" if quick else "400", "-goroutines", "4", "-ops", "3"],
                     "stress", timeout=1800)
    # (5) hook-free race-detector stress
    rep = vlib.run_harness_json(ctx, "registry", ["race", "-universe", up, "-iters", "60" if quick else "1500",
                                                  "-goroutines", "8" if quick else "16", "-ops", "6"],
                                timeout=3000, race=True)
    if rep["_rc"] == 66 or "DATA RACE" in rep["_stderr"]:
        ctx.violations.append({"from": "race", "what": "data race reported by the Go race detector", "case": rep["_stderr"][-3000:]})
    absorb(ctx, rep, "race")
    if not quick:
        negative_controls(ctx, up, [v for v in vecs])
    ctx.assumptions += [
        "block interleavings are enumerated at the verif yield points; within a critical section the code runs alone (the lock is checked to be held at every in-lock point)",
        "the race detector is a dynamic tool: absence of a report is evidence for the explored schedules only",
        "bounded: 2-3 processes with 1-2 operations each for exhaustive parts",
    ]
