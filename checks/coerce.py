"""Coercion family: C04 (resolvers only receive conforming arguments) and C05 (response data is
well typed).  spec/Coerce.tla (properties S + design M with named deviations), spec/MCCoerce.tla
(enumeration, direction A), spec/CoerceJudge.tla (direction B), harness/cmd/coerce."""
import json
import os

import vlib

# Deviations of spec/Coerce.tla (part M), by property.  A deviation is applied (dv = K) only when it is
# listed: in known_findings.json (vlib.load_known) or, until it is registered there, in PROPOSED_KNOWN.
DEVIATIONS = {
    "C04": ["IntTruncIn", "FloatOverflowIn", "SymbolAnyType", "NonNullListNoElemCoerce", "ContainerLiteralUnchecked",
            "DefaultNotCoerced", "Int64KeepsInt32", "RelaxedEnumUnchecked"],
    "C05": ["IntTruncOut", "FloatTruncOut", "NonFiniteOut", "ParseFailLeak", "TypedSliceNoCoerce", "EnumUndeclaredOut"],
}

# name -> what fails (same wording as the proposal files /verif/proposals/<ID>/<name>.md)
PROPOSED_KNOWN = {}   # everything found so far is either repaired in /repo or listed in known_findings.json

IN_FAMS_QUICK = ["lit0", "var0", "def0", "over", "list1", "list1var", "list1def", "list2", "varin", "objlist", "relaxed", "req2"]
IN_FAMS_THOROUGH = IN_FAMS_QUICK + ["list2var"]
# (req2: two required arguments x how each is given, run as a sequence on one root)
OUT_FAMS = ["oleaf", "olist", "otyped", "otyped2", "olist2", "oobj"]

MC_CFG = """SPECIFICATION MCSpec
CONSTANTS
  Fams = {fams}
  KnownDev = {known}
  MaxLen = {maxlen}
INVARIANTS Emit RefinesIn RefinesOut OracleConforms OracleNonNull OracleWellTyped
CHECK_DEADLOCK FALSE
"""

JUDGE_CFG = """SPECIFICATION JSpec
CONSTANTS KnownDev = {known}
INVARIANTS Judge
POSTCONDITION Done
CHECK_DEADLOCK FALSE
"""


def tlaset(xs):
    return "{" + ", ".join('"%s"' % x for x in xs) + "}"


def known_devs(prop):
    """deviation name -> what fails, for the deviations of this property that are listed."""
    out = {}
    for f in vlib.load_known(prop):
        d = f.get("deviation")
        if d in DEVIATIONS[prop]:
            out[d] = f.get("what", d)
    for d, (p, what) in PROPOSED_KNOWN.items():
        if p == prop and d in DEVIATIONS[prop] and d not in out:
            out[d] = what
    drop = [d for d in os.environ.get("VERIF_COERCE_FIXED", "").split(",") if d]   # strict judging of a repaired tree
    return {d: w for d, w in out.items() if d not in drop}


def note_known(ctx, names, devs):
    for name in names.split("+"):
        if name not in devs:
            ctx.violations.append({"from": "attribution", "what": "mismatch attributed to unlisted deviation " + name})
            continue
        key = "%s: %s" % (name, devs[name])
        ctx.known_hits[key] = ctx.known_hits.get(key, 0) + 1


def absorb(ctx, rep, label, devs):
    ctx.evaluations += rep["evaluations"]
    for h in rep.get("nontrivial_hashes") or []:
        ctx.nontrivial.add(h)
    for s in rep.get("samples") or []:
        ctx.add_sample({"from": label, "case": s}, limit=6)
    cl = ctx.extra.setdefault("classes", {})
    for k, v in (rep.get("classes") or {}).items():
        cl[k] = cl.get(k, 0) + v
    for m in rep["mismatches"]:
        if m.get("known"):
            note_known(ctx, m["known"], devs)
        else:
            ctx.violations.append({"from": label, "what": m["what"], "case": m["case"]})
    # known mismatches beyond the first few per deviation are only counted by the harness
    for k, n in (rep.get("known_hits") or {}).items():
        ctx.extra.setdefault("known_mismatches", {})[k] = ctx.extra.get("known_mismatches", {}).get(k, 0) + n


def enumerate_and_replay(ctx, fams, devs, maxlen):
    res = vlib.run_tlc(ctx, "MCCoerce", MC_CFG.format(fams=tlaset(fams), known=tlaset(sorted(devs)), maxlen=maxlen), timeout=1500, xss="64m")
    vlib.require_clean(res, "MCCoerce %s" % fams)
    uni = (res.mark("@@UNI") or [None])[0]
    if uni is None:
        raise vlib.MachineryError("no universe export")
    if not res.vecs:
        raise vlib.MachineryError("MCCoerce produced no vector")
    fam_count = {}
    for v in res.vecs:
        fam_count[v["fam"]] = fam_count.get(v["fam"], 0) + 1
    for f in fams:   # vacuity: every family has members
        if not fam_count.get(f):
            raise vlib.MachineryError("family %s is empty" % f)
    # every listed deviation must be reproduced by the model on some enumerated case
    seen = set()
    for v in res.vecs:
        seen.update(v.get("kdevs") or [])
    for d in devs:
        if d not in seen:
            raise vlib.MachineryError("deviation %s changes no enumerated case: the model does not reproduce it" % d)
    ctx.extra["vectors_by_family"] = fam_count
    up = os.path.join(ctx.scratch, "uni.json")
    vp = os.path.join(ctx.scratch, "vec.json")
    with open(up, "w") as fh:
        json.dump(uni, fh)
    with open(vp, "w") as fh:
        json.dump(res.vecs, fh)
    rep = vlib.run_harness_json(ctx, "coerce", ["replay", "-universe", up, "-vectors", vp], timeout=1500)
    if rep["_rc"] != 0:
        raise vlib.MachineryError("coerce replay failed: %s" % rep["_stderr"][-1500:])
    absorb(ctx, rep, "replay", devs)
    return uni, up, res.vecs


def replay_negative_control(ctx, up, vecs):
    """Binding demonstration: a vector whose expectation is flipped must fail the replay."""
    import copy
    pick = None
    for v in vecs:
        if "expK" in v:
            continue
        if ctx.prop == "C04" and v["exp"].get("out") == "call" and "val" in v["exp"] and v["exp"]["val"]["k"] != "null":
            pick = copy.deepcopy(v)
            pick["exp"] = {"out": "reject"}
            break
        if ctx.prop == "C05" and v["exp"].get("k") == "num":
            pick = copy.deepcopy(v)
            pick["exp"] = {"k": "errnull"}
            break
    if pick is None:
        raise vlib.MachineryError("negative control: no suitable vector")
    vp = os.path.join(ctx.scratch, "vec-control.json")
    with open(vp, "w") as fh:
        json.dump([pick], fh)
    rep = vlib.run_harness_json(ctx, "coerce", ["replay", "-universe", up, "-vectors", vp], timeout=300)
    if not [m for m in rep["mismatches"] if not m.get("known")]:
        raise vlib.MachineryError("negative control: a flipped expectation was not noticed by the replay")
    ctx.extra["negative_control_replay"] = "flipped expectation rejected"


def record_and_judge(ctx, up, devs, n, corrupt=0):
    out = os.path.join(ctx.scratch, "cases.ndjson" if not corrupt else "cases-control.ndjson")
    args = ["record", "-universe", up, "-prop", ctx.prop, "-n", str(n), "-out", out]
    if corrupt:
        args += ["-corrupt", str(corrupt)]
    rep = vlib.run_harness_json(ctx, "coerce", args, timeout=1500)
    if rep["_rc"] != 0:
        raise vlib.MachineryError("coerce record failed: %s" % rep["_stderr"][-1500:])
    recs = [json.loads(l) for l in open(out)]
    if len(recs) != n:
        raise vlib.MachineryError("recorded %d of %d cases" % (len(recs), n))
    files_text = {"cases.ndjson": open(out).read()}
    res = vlib.run_tlc(ctx, "CoerceJudge", JUDGE_CFG.format(known=tlaset(sorted(devs))), files_text=files_text, workers=1,
                       timeout=1500, tag="@@VER", xss="64m", count_states=not corrupt)
    vlib.require_clean(res, "CoerceJudge")
    if any(m.startswith('"@@INCOMPLETE') for m in res.marks):
        raise vlib.MachineryError("CoerceJudge did not consume all records")
    if len(res.vecs) != len(recs):
        raise vlib.MachineryError("CoerceJudge judged %d of %d records" % (len(res.vecs), len(recs)))
    if corrupt:
        # negative control: every falsified record must be rejected (neither strict nor K accepts it)
        bad = [v["i"] for v in res.vecs if (v["i"] - 1) % corrupt == 0 and (v["ok"] or v.get("known"))]
        if bad:
            raise vlib.MachineryError("negative control: falsified records %s were accepted by the judge" % bad[:5])
        ctx.extra["negative_control"] = "%d falsified records, all rejected" % len([v for v in res.vecs if (v["i"] - 1) % corrupt == 0])
        return
    absorb(ctx, {"evaluations": rep["evaluations"], "nontrivial_hashes": rep.get("nontrivial_hashes"), "samples": rep.get("samples"),
                 "classes": rep.get("classes"), "mismatches": []}, "record", devs)
    ctx.traces += len(recs)
    for v in res.vecs:
        if v["ok"]:
            continue
        rec = recs[v["i"] - 1]
        if v.get("known"):
            note_known(ctx, "+".join(v.get("kdevs") or ["K"]), devs)
            continue
        case = {k: rec.get(k) for k in ("text", "t", "lit", "vds", "given", "rx", "omit", "gv") if k in rec}
        case["observed"] = rec["act"]
        if "errs" in rec:
            case["observed_error_paths"] = rec["errs"]
        case["prescribed"] = v.get("exp")
        if v.get("expK") is not None:
            case["prescribed_with_known_deviations"] = v["expK"]
        ctx.violations.append({"from": "record", "what": "recorded execution is not what Coerce.tla prescribes", "case": case})


def run(ctx):
    if ctx.prop not in DEVIATIONS:
        raise vlib.MachineryError("no plan for %s" % ctx.prop)
    devs = known_devs(ctx.prop)
    thorough = ctx.tier == "thorough"
    if ctx.prop == "C04":
        fams = IN_FAMS_THOROUGH if thorough else IN_FAMS_QUICK
    else:
        fams = OUT_FAMS
    uni, up, vecs = enumerate_and_replay(ctx, fams, devs, 3 if thorough else 2)
    record_and_judge(ctx, up, devs, 30000 if thorough else 3000)
    if thorough:
        record_and_judge(ctx, up, devs, 200, corrupt=7)
        replay_negative_control(ctx, up, vecs)
    import execfam
    if ctx.prop == "C04":
        execfam.borrow_exec(ctx, ["args", "inputs", "dirvars"], {"calls"}, "exec-args")
        # the variables of a subscription request (given, or defaulted there) are the variables its selection set is
        # applied to the events with: registry histories judged on what is delivered
        execfam.subscription_selections(ctx)
    else:
        execfam.borrow_exec(ctx, ["abstract", "absops", "forms", "dups", "fault0", "fault1"], {"data", "errors"}, "exec-shapes")
    ctx.exhaustive = True
    if ctx.prop == "C04":
        ctx.rule = ("TLC enumerates (spec/MCCoerce.tla, families %s) every input type expression up to wrapper depth 3 over "
                    "{Int, Float, Float64, Int64, String, Boolean, ID, Time, enum, input object} x value trees over the named number points "
                    "(boundaries around +-2^31, 2^24, 2^53, 2^63, float32 range, NaN/Inf), strings, symbols, null, lists and input objects x source "
                    "{literal, variable in every Go kind holding the point, variable default, default overridden, nested in literal list / input object, "
                    "ggql.Relaxed}; Coerce!ArgOutcome prescribes call(value) / reject / may; each case is a request against a root with one field per "
                    "type expression and a capturing resolver (Resolver object and AnyResolver worlds, ResolveString and ResolveExecutable): compared are "
                    "invocation count, the received argument by Go kind and value, the error entry. Direction B: random type expressions (wrapper depth <= 4) "
                    "and value trees executed and judged by spec/CoerceJudge.tla. non-trivial = a value is written for the argument; distinct by "
                    "(request text, variables, world)" % fams)
        ctx.assumptions += [
            "kinds the statement obliges ggql to accept: int64/float64 (parsed literals, JSON-decoded numbers), string, bool and the declared type's own Go kind; "
            "for other Go kinds in the variables map rejection with an error is accepted as well as correct coercion (outcome 'may')",
            "a null written for a variable or an input field is a value: defaults are for what is left out (Sem!VarVals, Sem!FillIn agree)",
            "variables are used at positions of their declared type (document validity)",
            "the error entry is judged by existence and first path segment (field key) or request-level error; deeper path segments are not part of the statement",
        ]
    else:
        ctx.rule = ("TLC enumerates (spec/MCCoerce.tla, families %s) every declared leaf type {8 scalars, enum} under wrappers up to depth 3 x Go values a "
                    "resolver may return: every numeric kind x every named point it holds, numeric / non-numeric / boolean / time strings, bool, Symbol, time.Time, "
                    "nil, nil pointer, map, struct, chan, and lists as []interface{}, ListResolver, the typed slices resolveList knows, other slices and arrays "
                    "(reflection and AnyResolver.Len/Nth); Coerce!CoerceOut prescribes the JSON tree and the positions that must carry an error; compared are "
                    "data in memory, data after WriteJSONValue + encoding/json, and the set of error paths. Direction B: random type expressions (depth <= 4) and "
                    "value trees judged by spec/CoerceJudge.tla. non-trivial = the resolver returns a non-nil value; distinct by (declared type, Go value, world)" % fams)
        ctx.assumptions += [
            "String/ID positions: any JSON string is well typed for a non-string Go value (the statement fixes the shape, not the rendering)",
            "GraphQL allows but does not oblige a server to coerce numeric strings / numbers to Boolean etc.: for these 'null plus error' is accepted as well",
            "a nil returned for a non-null declared type is outside the statement (ggql documents no non-null propagation)",
            "wrong shapes for list positions run on the Resolver world only: behind an AnyResolver the application's Len() decides what a list is",
        ]
