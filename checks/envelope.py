"""C07: well-formed envelope, valid JSON, sane locations (spec/Envelope.tla, Scanner.tla, EnvelopeJudge.tla)."""
import json
import os

import execfam
import vlib

SCANNER_CFG = """SPECIFICATION SSpec
CONSTANTS MaxLen = {n}
  Input <- AllInputs
  Dev = {dev}
INVARIANTS StampedLine
CHECK_DEADLOCK FALSE
"""

JUDGE_CFG = """SPECIFICATION JSpec
INVARIANTS Judge
POSTCONDITION Done
CHECK_DEADLOCK FALSE
"""

FAMS = ["flat", "nest1", "nest2", "inline2", "spread", "args", "inputs", "ops", "dirs", "defect", "fault0", "fault1", "dups"]


def leaves_are_json(ctx):
    import coerce
    sub = vlib.Ctx("C05", ctx.tier)
    sub.scratch = ctx.scratch
    coerce.enumerate_and_replay(sub, coerce.OUT_FAMS, coerce.known_devs("C05"), 2)
    ctx.evaluations += sub.evaluations
    ctx.extra["leaf_cases_written_as_json"] = sub.evaluations
    for v in sub.violations:
        if "not JSON" in v.get("what", "") or "WriteJSONValue" in v.get("what", ""):
            v["from"] = "leaves-as-json"
            ctx.violations.append(v)


def subscription_envelopes(ctx):
    import registry
    vecs, uni = registry.model_and_vectors(ctx, [1], 2, "MCPoolA", "MCInitSome")
    sub = vlib.Ctx(ctx.prop, ctx.tier)
    sub.scratch = ctx.scratch
    registry.replay(sub, vecs, uni, "subscription-envelopes")
    ctx.evaluations += sub.evaluations
    ctx.extra["subscription_histories"] = len(vecs)
    for v in sub.violations:
        w = v.get("what", "")
        if "subscri" in w and "errors" in w:
            v["from"] = "subscription-envelopes"
            ctx.violations.append(v)


def run(ctx):
    quick = ctx.tier == "quick"
    # (1) the reader's position bookkeeping as a state machine: all byte class strings up to n
    res = vlib.run_tlc(ctx, "MCScanner", SCANNER_CFG.format(n=6 if quick else 8, dev="{}"), timeout=1800)
    vlib.require_clean(res, "Scanner")
    if not quick:
        bad = vlib.run_tlc(ctx, "MCScanner", SCANNER_CFG.format(n=4, dev='{"LocAfterNewline"}'), timeout=600, count_states=False)
        if not bad.error:
            raise vlib.MachineryError("Scanner: the stamp-after-look-ahead deviation is not caught by StampedLine")
        ctx.extra["model_mutation_caught"] = "LocAfterNewline violates " + str(bad.violated or bad.error)
    # (2) responses of the execution family's cases in every layout, judged by Envelope!WellFormed
    vecs, uni, devs = execfam.enumerate_cases(ctx, FAMS)
    up = os.path.join(ctx.scratch, "uni.json")
    vp = os.path.join(ctx.scratch, "vec.json")
    json.dump(uni, open(up, "w"))
    json.dump(vecs, open(vp, "w"))
    out = os.path.join(ctx.scratch, "envelopes.ndjson")
    rep = vlib.run_harness_json(ctx, "exec", ["envelope", "-universe", up, "-vectors", vp, "-out", out, "-every", "6" if quick else "1"], timeout=3000)
    ctx.evaluations += rep["evaluations"]
    for h in rep.get("nontrivial_hashes") or []:
        ctx.nontrivial.add(h)
    for s in rep.get("samples") or []:
        ctx.add_sample(s)
    ctx.extra["classes"] = rep.get("classes")
    for m in rep.get("mismatches") or []:   # (what the harness itself decides: the path of a depth error)
        if not m.get("known"):
            ctx.violations.append({"from": "envelope-harness", "what": m["what"], "case": m.get("case")})
    res = vlib.run_tlc(ctx, "EnvelopeJudge", JUDGE_CFG, extra_files=[out], workers=1, timeout=3000, tag="@@VER", xss="64m")
    vlib.require_clean(res, "EnvelopeJudge")
    recs = [json.loads(l) for l in open(out)]
    if len(res.vecs) != len(recs) or any(m.startswith('"@@INCOMPLETE') for m in res.marks):
        raise vlib.MachineryError("EnvelopeJudge judged %d of %d records" % (len(res.vecs), len(recs)))
    ctx.traces += len(recs)
    for v in res.vecs:
        if v["ok"]:
            continue
        r = recs[v["i"] - 1]
        bad = sorted(k for k, ok in v["w"].items() if not ok)
        ctx.violations.append({"from": "envelope", "what": "response is not a well-formed envelope: " + ", ".join(bad),
                               "case": {"request": r["text"], "layout": r["layout"], "keys": r["keys"], "dataKind": r["dataKind"],
                                        "errors": r["errors"], "json": r["json"], "rejected": r["rejected"]}})
    # (3) the written form of every leaf value a resolver can hand over (the cases of Coerce.tla's output families: every
    # numeric kind at every named point, strings, times, lists of them): what WriteJSONValue writes is JSON
    leaves_are_json(ctx)
    # (4) the answer to a subscription request is an envelope of its own: registry histories in which every other
    # subscription request follows another client's refused request (whose errors carry positions in ITS document)
    subscription_envelopes(ctx)
    ctx.rule = ("(1) Scanner.tla: the reader's line/column bookkeeping with its one byte look-ahead, model-checked for every string of byte classes "
                "{token, space, LF, '#', punctuation} up to length %d: every stamped field position is on the line of the token's first byte with a positive "
                "column; (2) every response of the execution-family cases %s (valid, invalid and refused requests, injected failures), each rendered in 5 "
                "layouts (one line; one field per line; commas; CRLF; comments), is reduced to a skeleton and judged by Envelope!WellFormed: only data/errors, "
                "non-empty errors, message, path of strings and non-negative integers, positive locations on the line of a lexeme equal to the error's "
                "response key and inside the document, null/absent data for refused requests, and WriteJSONValue in indent modes -1/0/2 accepted by "
                "encoding/json and decoding to the same structure. non-trivial = response carrying an error location" % (6 if quick else 8, FAMS))
    ctx.assumptions += ["the column is only required to be positive and within the line (+2): ggql counts columns from a constant offset",
                        "the line of an error with a path must be the line of some name lexeme equal to the last path key (alias or field name)"]
