"""Execution family: C01, C02, C06, C08, C09, C10, C11 (spec/Sem.tla, ExecGen.tla, MCExec.tla)."""
import json
import os

import vlib

CFG = """SPECIFICATION MCSpec
CONSTANTS
  Fams = {fams}
  KnownDev = {known}
INVARIANTS Emit OracleErrPaths OracleNoOpNoCall OracleFaultMonotone OracleMergeEquiv OraclePrecedence
CHECK_DEADLOCK FALSE
"""


def tlaset(xs):
    return "{" + ", ".join('"%s"' % x for x in xs) + "}"


def known_devs(props):
    devs = {}
    for p in props:
        for f in vlib.load_known(p):
            if f.get("deviation"):
                devs[f["deviation"]] = f
    return devs


# all deviations of the execution family that Sem.tla can reproduce, by property
FAMILY_PROPS = ["C01", "C02", "C06", "C08", "C09", "C10", "C11"]


def enumerate_cases(ctx, fams, timeout=1800, module="MCExec"):
    devs = known_devs(FAMILY_PROPS)
    res = vlib.run_tlc(ctx, module, CFG.format(fams=tlaset(fams), known=tlaset(sorted(devs))), timeout=timeout, xss="64m")
    vlib.require_clean(res, "%s %s" % (module, fams))
    uni = (res.mark("@@UNI") or [None])[0]
    if uni is None:
        raise vlib.MachineryError("no universe export")
    return res.vecs, uni, devs


def replay(ctx, vecs, uni, label, strategies="iface,any", extra=()):
    up = os.path.join(ctx.scratch, "uni-%s.json" % label)
    vp = os.path.join(ctx.scratch, "vec-%s.json" % label)
    with open(up, "w") as fh:
        json.dump(uni, fh)
    with open(vp, "w") as fh:
        json.dump(vecs, fh)
    # cases are spread over list modes / binding modes / layouts by position: quick takes the assignment the seed gives,
    # thorough all six
    rep = None
    for rot in ([ctx.seed % 6] if ctx.tier == "quick" else range(6)):
        r = vlib.run_harness_json(ctx, "exec", ["replay", "-universe", up, "-vectors", vp, "-strategies", strategies, "-rot", str(rot)] + list(extra),
                                  timeout=3000)
        if rep is None:
            rep = r
            continue
        rep["evaluations"] += r["evaluations"]
        rep["nontrivial_hashes"] = sorted(set(rep.get("nontrivial_hashes") or []) | set(r.get("nontrivial_hashes") or []))
        rep["mismatches"] += r["mismatches"]
        for k, v in (r.get("classes") or {}).items():
            rep.setdefault("classes", {})[k] = rep.get("classes", {}).get(k, 0) + v
    return rep


def absorb(ctx, rep, label, aspects, devs, prop):
    """Count the run; mismatches in `aspects` are violations of this property unless explained by the
    known deviations (second oracle M(K)); mismatches in other aspects belong to other properties."""
    ctx.evaluations += rep["evaluations"]
    for h in rep.get("nontrivial_hashes") or []:
        ctx.nontrivial.add(h)
    for s in rep.get("samples") or []:
        ctx.add_sample({"from": label, "case": s})
    cl = ctx.extra.setdefault("classes", {})
    for k, v in (rep.get("classes") or {}).items():
        cl[k] = cl.get(k, 0) + v
    other = ctx.extra.setdefault("mismatches_in_aspects_of_other_properties", {})
    for m in rep["mismatches"]:
        asp = m["case"].get("aspect") if isinstance(m.get("case"), dict) else None
        if asp not in aspects:
            other[asp or "?"] = other.get(asp or "?", 0) + 1
            continue
        if m.get("known"):
            note_known(ctx, m["known"], devs)
            continue
        ctx.violations.append({"from": label, "what": m["what"], "case": m["case"]})
    # known mismatches beyond the first few per deviation are only counted by the harness
    for k, n in (rep.get("known_hits") or {}).items():
        extra = n - sum(1 for m in rep["mismatches"] if m.get("known") == k)
        if extra > 0:
            ctx.extra.setdefault("known_mismatches_all_aspects", {})[k] = n


JUDGE_CFG = """SPECIFICATION JSpec
CONSTANTS KnownDev = {known}
INVARIANTS Judge
POSTCONDITION Done
CHECK_DEADLOCK FALSE
"""

ASPECT_OF = {"data": "data", "errors": "errors", "cover": "errors_cover", "calls": "calls"}


def record_and_judge(ctx, uni, label, aspects, devs, prop, n, strategies="iface,any", depth=3, universes=6, extra=()):
    """Direction B: random universes/documents executed on the real code, judged by spec/ExecJudge.tla."""
    up = os.path.join(ctx.scratch, "uni-%s.json" % label)
    with open(up, "w") as fh:
        json.dump(uni, fh)
    out = os.path.join(ctx.scratch, "cases.ndjson")
    rep = vlib.run_harness_json(ctx, "exec", ["record", "-universe", up, "-n", str(n), "-universes", str(universes), "-depth", str(depth),
                                              "-strategies", strategies, "-out", out] + list(extra), timeout=3000)
    ctx.evaluations += rep["evaluations"]
    for h in rep.get("nontrivial_hashes") or []:
        ctx.nontrivial.add(h)
    for smp in rep.get("samples") or []:
        ctx.add_sample({"from": label, "case": smp}, limit=6)
    for m in rep["mismatches"]:
        ctx.violations.append({"from": label, "what": m["what"], "case": m["case"]})
    res = vlib.run_tlc(ctx, "ExecJudge", JUDGE_CFG.format(known=tlaset(sorted(devs))), extra_files=[out], workers=1,
                       timeout=3000, tag="@@VER", xss="64m")
    vlib.require_clean(res, "ExecJudge")
    if any(m.startswith('"@@INCOMPLETE') for m in res.marks):
        raise vlib.MachineryError("ExecJudge did not consume all records")
    recs = [json.loads(l) for l in open(out)]
    ncases = sum(1 for r in recs if r["r"] == "case")
    if len(res.vecs) != ncases:
        raise vlib.MachineryError("ExecJudge judged %d of %d recorded cases" % (len(res.vecs), ncases))
    ctx.traces += ncases
    for v in res.vecs:
        if v["ok"]:
            continue
        rec = recs[v["i"] - 1]
        badasp = {ASPECT_OF[a] for a, ok in v["strict"].items() if not ok}
        mine = badasp & aspects
        if not mine:
            continue
        case = {"request": rec["text"], "op": rec["op"], "vars": rec["vars"], "faults": rec["faults"], "strategy": rec.get("strategy"),
                "actual": rec["act"], "model": v["model"], "aspects": sorted(mine)}
        kbad = {ASPECT_OF[a] for a, ok in v["withK"].items() if not ok} & aspects
        if not kbad and v.get("kdevs"):
            note_known(ctx, "+".join(v["kdevs"]), devs)
            continue
        ctx.violations.append({"from": label, "what": "recorded response disagrees with Sem in %s" % sorted(mine), "case": case})
    return rep


def note_known(ctx, names, devs):
    """A mismatch explained by M(K).  It is a KNOWN-FINDING of this property only if the deviation is
    listed for it; deviations listed for other properties (they concern aspects this property's
    statement does not constrain differently) are only counted in the evidence."""
    for name in names.split("+"):
        f = devs.get(name)
        if f is None:
            ctx.violations.append({"from": "attribution", "what": "mismatch attributed to unlisted deviation " + name})
            continue
        if f["property"] == ctx.prop or ctx.prop in f.get("also", []):
            key = "%s: %s" % (name, f["what"])
            ctx.known_hits[key] = ctx.known_hits.get(key, 0) + 1
        else:
            o = ctx.extra.setdefault("explained_by_findings_listed_for_other_properties", {})
            o[name] = o.get(name, 0) + 1


PLANS = {
    # property: (families quick, families thorough-extra, aspects judged)
    "C01": (["flat", "nest1", "nest2", "nest3", "inline1", "inline2", "spread", "dups", "args", "ops", "dirvars", "dirnull", "inputs", "abstract", "absops", "forms"], [], {"data", "opchoice"}),
    "C06": (["fault0", "fault1", "faultnth", "faultcall", "abstract"], ["fault2"], {"errors", "data"}),
    "C09": (["dirs", "dirvars", "dirnull"], [], {"data", "calls"}),
    "C10": (["defect", "defectabs", "forms"], [], {"errors_cover", "calls", "data", "opchoice"}),
}


REUSE_CFG = """SPECIFICATION RSpec
CONSTANTS MaxCalls = {n}
  KnownDev = {known}
INVARIANTS FreshEquivalent Emit
PROPERTIES ParsedUnchanged
CHECK_DEADLOCK FALSE
"""


def run_c11(ctx):
    devs = known_devs(FAMILY_PROPS)
    aspects = {"data", "errors", "errors_cover", "calls", "printed", "opchoice"}
    n = 3 if ctx.tier == "quick" else 4
    res = vlib.run_tlc(ctx, "MCReuse", REUSE_CFG.format(n=n, known=tlaset(sorted(devs))), timeout=3000, xss="64m")
    vlib.require_clean(res, "MCReuse")
    uni = (res.mark("@@UNI") or [None])[0]
    up = os.path.join(ctx.scratch, "uni.json")
    vp = os.path.join(ctx.scratch, "sessions.json")
    json.dump(uni, open(up, "w"))
    json.dump(res.vecs, open(vp, "w"))
    rep = vlib.run_harness_json(ctx, "exec", ["reuse", "-universe", up, "-vectors", vp], timeout=3000)
    absorb(ctx, rep, "reuse-replay", aspects, devs, ctx.prop)
    # sessions over abstract types (reflection strategy): operations of one document sharing a fragment on an interface
    # (and, for the documents with a union as a type condition: the schema is extended between two resolves of one parsed request)
    vecs, uni2, _ = enumerate_cases(ctx, ["absops", "abstract", "forms", "dirvars", "inputs", "ops", "args"])
    rep = replay(ctx, vecs, uni2, "shared-parse", strategies="iface,any,refl")
    absorb(ctx, rep, "shared-parse", aspects, devs, ctx.prop)
    record_and_judge(ctx, uni, "reuse-record", aspects, devs, ctx.prop, 500 if ctx.tier == "quick" else 4000,
                     universes=10 if ctx.tier == "quick" else 40, extra=["-calls", "4"])
    ctx.exhaustive = True
    ctx.rule = ("every session of spec/MCReuse.tla (a document with variables inside literal containers, out-of-order arguments, "
                "directives on variables, fragments, several operations or injected defects, resolved %d times with every sequence of "
                "(operation, variable map) choices) is replayed on ONE parsed Executable: each response must equal the one Sem prescribes "
                "for a fresh parse and the printed form must not change; random documents resolved 4 times each are recorded and judged by "
                "ExecJudge.tla. non-trivial = session whose calls are not all identical; distinct by (document, call sequence, strategy)" % n)


COMMON = ["flat", "nest1", "nest2", "nest3", "inline1", "inline2", "spread", "dups", "args", "ops", "inputs", "dirvars", "fault0", "fault1"]


def run_c02(ctx):
    devs = known_devs(FAMILY_PROPS)
    aspects = {"data", "errors", "opchoice", "calls", "precedence"}
    # (family abstract: interface / union typed fields need Go type bindings, so it runs on the reflection strategy in its six binding modes only)
    fams = COMMON + ["mixed", "abstract", "forms"] + (["fault2", "dirs"] if ctx.tier == "thorough" else [])
    vecs, uni, devs = enumerate_cases(ctx, fams)
    rep = replay(ctx, vecs, uni, "replay-3-strategies", strategies="iface,any,refl")
    absorb(ctx, rep, "replay-3-strategies", aspects, devs, ctx.prop)
    # direction B: random documents on the fixed universe with all three strategies (universes=0)
    record_and_judge(ctx, uni, "record-3-strategies", aspects - {"precedence"}, devs, ctx.prop, 1200 if ctx.tier == "quick" else 12000,
                     strategies="iface,any,refl", universes=0)
    import lazybind
    lazybind.binding_logs(ctx)
    ctx.exhaustive = True
    ctx.rule = ("every case of the families %s (the feature set common to the strategies) is executed with the data realised as Resolver objects, "
                "behind an AnyResolver, as reflected Go structs/methods bound by name, by RegisterType and by @go, and - family 'mixed' - with every "
                "assignment of {Resolver object, plain data} to the nodes with and without a root resolver installed; every response must equal Sem's "
                "(hence each other) and every call must be served by the strategy the precedence rule Sem!Via prescribes. non-trivial = at least two "
                "resolver calls; distinct by (case, strategy)" % fams)
    ctx.assumptions.append("reflected methods cannot observe omitted/null arguments: cases with partially supplied arguments run on the other two strategies only")


def run_c08(ctx):
    devs = known_devs(FAMILY_PROPS)
    aspects = {"data", "calls"}
    vecs, uni, devs = enumerate_cases(ctx, ["abstract", "absops", "forms", "defectabs", "inline1", "inline2", "spread"])
    # (reflection in its binding modes, and Resolver objects that are values of registered named map types)
    rep = replay(ctx, vecs, uni, "replay-refl", strategies="iface,refl")
    absorb(ctx, rep, "replay-refl", aspects, devs, ctx.prop)
    record_and_judge(ctx, uni, "record-refl-abstract", aspects, devs, ctx.prop, 1200 if ctx.tier == "quick" else 12000,
                     strategies="refl", universes=0, extra=["-abstract"], depth=4)
    ctx.exhaustive = True
    ctx.rule = ("families abstract/defectabs/inline/spread: every (container kind in {object, interface, union, lists of them}) x (type condition in "
                "{each object, interface, union, none}) x concrete type, inline and named, nested, executed with reflected Go types bound by name, "
                "by RegisterType and by @go; data and call log must equal Sem's (which decides by the Applies relation); random documents with abstract "
                "conditions recorded and judged by ExecJudge.tla. non-trivial = at least two resolver calls")
    ctx.assumptions.append("Resolver objects whose Go types are not bound to object types are outside the claim (the limitation ggql documents): these "
                           "families run on the reflection strategy and on Resolver objects of registered Go types (named map types)")


def subscription_selections(ctx):
    """C09 for the selections a subscription applies to its events: Registry!MsgOf has keys conditioned (on the field, on an
    inline fragment, on a fragment spread) on a variable of the subscriber's own request. The histories and the harness are
    those of the registry family; only what is delivered is judged here (counts, order and clean-up are C19's)."""
    import registry
    vecs, uni = registry.model_and_vectors(ctx, [1], 2, "MCPoolA", "MCInitSome")
    sub = vlib.Ctx(ctx.prop, ctx.tier)
    sub.scratch = ctx.scratch
    registry.replay(sub, vecs, uni, "subscription-selections")
    ctx.evaluations += sub.evaluations
    ctx.extra["subscription_histories"] = len(vecs)
    for v in sub.violations:
        if "delivered" in v.get("what", ""):
            v["from"] = "subscription-selections"
            ctx.violations.append(v)


def borrow_exec(ctx, fams, aspects, label):
    """The coercion family's properties seen through whole requests: C04 (what resolvers receive: aspect calls) and C05
    (what the response holds at every position: aspects data and errors) also hold of the execution family's cases - the
    concrete type chosen under abstract fields, response keys selected twice, failures below them - which the one-field
    roots of the coercion harness never meet.  Sem.tla prescribes, the three strategies are run."""
    vecs, uni, devs = enumerate_cases(ctx, fams)
    rep = replay(ctx, vecs, uni, label, strategies="iface,any,refl")
    absorb(ctx, rep, label, aspects, devs, ctx.prop)
    ctx.extra["exec_family_cases_" + label] = len(vecs)


def leaf_list_failures(ctx):
    """C06 for the members of lists of leaves in every Go shape a resolver can hand over (typed slices of every kind,
    lists of lists, ListResolvers): Coerce.tla prescribes, per member, the value or null plus ONE error at [key, index].
    The cases and the harness are those of the coercion family; what C05's known deviations explain is C05's business
    and is skipped here."""
    import coerce
    devs5 = coerce.known_devs("C05")
    fams = ["olist", "otyped", "otyped2", "olist2"]
    res = vlib.run_tlc(ctx, "MCCoerce", coerce.MC_CFG.format(fams=coerce.tlaset(fams), known=coerce.tlaset(sorted(devs5)), maxlen=2),
                       timeout=1500, xss="64m")
    vlib.require_clean(res, "MCCoerce %s" % fams)
    uni = (res.mark("@@UNI") or [None])[0]
    if uni is None or not res.vecs:
        raise vlib.MachineryError("MCCoerce: no universe or no vectors for the list families")
    up = os.path.join(ctx.scratch, "uni-lists.json")
    vp = os.path.join(ctx.scratch, "vec-lists.json")
    with open(up, "w") as fh:
        json.dump(uni, fh)
    with open(vp, "w") as fh:
        json.dump(res.vecs, fh)
    rep = vlib.run_harness_json(ctx, "coerce", ["replay", "-universe", up, "-vectors", vp], timeout=1500)
    if rep["_rc"] != 0:
        raise vlib.MachineryError("coerce replay failed: %s" % rep["_stderr"][-1500:])
    ctx.evaluations += rep["evaluations"]
    for h in rep.get("nontrivial_hashes") or []:
        ctx.nontrivial.add(h)
    ctx.extra["leaf_list_cases"] = len(res.vecs)
    for m in rep["mismatches"]:
        if not m.get("known"):
            ctx.violations.append({"from": "leaf-lists", "what": m["what"], "case": m["case"]})


def run(ctx):
    if ctx.prop == "C11":
        return run_c11(ctx)
    if ctx.prop == "C02":
        return run_c02(ctx)
    if ctx.prop == "C08":
        return run_c08(ctx)
    if ctx.prop in PLANS:
        quick, more, aspects = PLANS[ctx.prop]
        fams = quick + (more if ctx.tier == "thorough" else [])
        vecs, uni, devs = enumerate_cases(ctx, fams)
        rep = replay(ctx, vecs, uni, "replay", strategies="iface,any,refl")
        absorb(ctx, rep, "replay", aspects, devs, ctx.prop)
        if ctx.prop in ("C10", "C01"):
            # U-top: the query root type is not called Query and an ordinary object type is (what is a root is decided by the schema)
            tvecs, tuni, _ = enumerate_cases(ctx, ["topmeta", "topplain"], module="MCExecTop")
            trep = replay(ctx, tvecs, tuni, "replay-utop", strategies="iface,any")
            absorb(ctx, trep, "replay-utop", aspects, devs, ctx.prop)
            # U-nomut: no root for mutations, on roots that were once offered a type Mutation in a document they refused
            nvecs, nuni, _ = enumerate_cases(ctx, ["nomut"], module="MCExecNoMut")
            nrep = replay(ctx, nvecs, nuni, "replay-unomut", strategies="iface,any", extra=["-offer-mutation"])
            absorb(ctx, nrep, "replay-unomut", aspects | {"opchoice"}, devs, ctx.prop)
        if ctx.prop == "C06":
            leaf_list_failures(ctx)
        if ctx.prop == "C09":
            subscription_selections(ctx)
        record_and_judge(ctx, uni, "record", aspects, devs, ctx.prop, 1500 if ctx.tier == "quick" else 12000,
                         universes=12 if ctx.tier == "quick" else 60)
        ctx.exhaustive = True
        ctx.rule = ("TLC enumerates the document families %s of spec/ExecGen.tla over the universe U-exec and computes the prescribed "
                    "response with spec/Sem.tla; every case is executed on the real code with the data realised as Resolver objects and "
                    "behind an AnyResolver, in rotating list shapes and document layouts; aspects compared: %s. "
                    "non-trivial = case whose prescribed execution makes at least two resolver calls; distinct by (case, strategy)"
                    % (fams, sorted(aspects)))
        return
    raise vlib.MachineryError("no plan for %s" % ctx.prop)
