"""How the seeded changes S1..S6 were tried (C12).  Needs a scratch worktree of /repo at WT:
     git -C /repo worktree add --detach /tmp/wt-C12 HEAD ; python3 run_seeds.py [names] ; git -C /repo worktree remove --force /tmp/wt-C12
For every seed: apply, build with and without the verif tag, run the existing suite, run the C12 check (quick) with VERIF_REPO=WT."""
import subprocess, sys, os, json
WT='/tmp/wt-C12'
ENV=dict(os.environ, GOFLAGS='-mod=mod', GOPROXY='off', GOSUMDB='off', GOTOOLCHAIN='local')
def sh(cmd, cwd=WT, env=ENV, timeout=1800):
    p=subprocess.run(cmd, cwd=cwd, env=env, shell=True, stdout=subprocess.PIPE, stderr=subprocess.STDOUT, text=True, timeout=timeout)
    return p.returncode, p.stdout

SEEDS = {
 'S1-grt-nolock': [('pkg/ggql/root.go', '''			o.mu.Lock()
			if o.meta == meta {
				obj = o
				o.mu.Unlock()
				break
			}
			o.mu.Unlock()
''', '''			if o.meta == meta {
				obj = o
				break
			}
''')],
 'S2-check-then-bind': [('pkg/ggql/resolve.go', '''		if fd = tt.GetField(field.Name); fd != nil {
			fd.mu.Lock()
			if len(fd.goField) == 0 && fd.method == nil {
				err = root.regField(tt, fd, field.Name)
			}
			fd.mu.Unlock()
		}
	case *Schema:''', '''		if fd = tt.GetField(field.Name); fd != nil {
			fd.mu.Lock()
			unbound := len(fd.goField) == 0 && fd.method == nil
			fd.mu.Unlock()
			if unbound {
				err = root.regField(tt, fd, field.Name)
			}
		}
	case *Schema:''')],
 'S3-assuretype-fastpath': [('pkg/ggql/root.go', '''	meta := reflect.TypeOf(sample)
	obj.mu.Lock()
	defer obj.mu.Unlock()
	if obj.meta != nil && obj.meta != meta {''', '''	meta := reflect.TypeOf(sample)
	if obj.meta == meta { // already bound, nothing to do
		return nil
	}
	obj.mu.Lock()
	defer obj.mu.Unlock()
	if obj.meta != nil && obj.meta != meta {''')],
 'S4-regfield-first-read-nolock': [('pkg/ggql/root.go', '''	obj.mu.Lock()
	meta := obj.meta
	obj.mu.Unlock()
	if meta.Kind() == reflect.Ptr {''', '''	meta := obj.meta
	if meta.Kind() == reflect.Ptr {''')],
 'S5-metacheck-narrowed': [('pkg/ggql/object.go', '''	t.mu.Lock()
	defer t.mu.Unlock()
	if t.meta == nil {
		bt := rt''', '''	t.mu.Lock()
	unset := t.meta == nil
	t.mu.Unlock()
	if unset {
		bt := rt''')],
 'S6-grt-missing-unlock': [('pkg/ggql/root.go', '''			if o.meta == meta {
				obj = o
				o.mu.Unlock()
				break
			}''', '''			if o.meta == meta {
				obj = o
				break
			}''')],
}

def apply(edits):
    for path, old, new in edits:
        s=open(os.path.join(WT,path)).read()
        assert s.count(old)==1, (path, s.count(old))
        open(os.path.join(WT,path),'w').write(s.replace(old,new))

which = sys.argv[1:] or list(SEEDS)
res={}
for name in which:
    sh('git checkout -q -- . && git clean -fdq')
    apply(SEEDS[name])
    rc,out=sh('git diff'); open('/verif/proposals/C12/seeds/%s.diff'%name,'w').write(out)
    r={}
    rc1,o1=sh('go build ./... && go build -tags verif ./...'); r['compiles']=rc1==0
    rc2,o2=sh('go test -vet=off -count=1 -timeout 300s ./pkg/... 2>&1 | grep -E "^(--- FAIL|FAIL|ok|panic)"')
    fails=[l for l in o2.splitlines() if l.startswith('--- FAIL')]
    r['test_failures']=fails
    r['tests_ok']= all(('TestRootParseFSErr' in f or 'TestParseHTTP' in f) for f in fails) and 'panic' not in o2
    for tier in (['quick']):
        rc3,o3=sh('cd /verif && python3 -c "import sys; sys.path[:0]=[\'lib\',\'checks\']; import vlib, lazybind as m; ctx=vlib.Ctx(\'C12\',\'%s\'); m.run(ctx); vlib.finish(ctx)"'%tier, env=dict(ENV, VERIF_REPO=WT))
        r['check_rc_'+tier]=rc3
        r['check_tail_'+tier]=[l[:260] for l in o3.splitlines() if l.startswith(('OK','VIOLATION','  mismatch','MACHINERY'))][:4]
    res[name]=r
    print(name, json.dumps(r, indent=1), flush=True)
sh('git checkout -q -- . && git clean -fdq')
