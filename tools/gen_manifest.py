#!/usr/bin/env python3
"""Regenerates /verif/MANIFEST.json from the table below (kept in one place so it stays valid)."""
import json
import os
import subprocess

VERIF = os.path.dirname(os.path.dirname(os.path.abspath(__file__)))

CLAIMED = {
    "C19": dict(
        level="model_checking",
        technique="TLA+ spec (Registry.tla) model-checked with TLC; TLC behaviours replayed into the real Root; recorded real behaviours judged by TLC trace validation (RegistryTrace.tla)",
        text="Registry.tla states the registry's blocks declaratively; TLC checks its invariants and action properties exhaustively for all "
             "sequential histories up to the configured length and emits every history with its expected outputs; each is executed on a real "
             "Root and compared block by block; random longer histories recorded from the real code are judged by RegistryTrace.tla.",
        note="Trusted: TLC, the harness' Subscriber implementation and its in-process logging, the verif accessor VerifSubscribers. "
             "Bounded pools/histories; beyond the bound only sampled.",
        design="DESIGN.md §6 C19",
    ),
    "C20": dict(
        level="model_checking",
        technique="TLA+ spec of the mutex-level algorithm (RegistryLock.tla) refined to Registry.tla, model-checked with TLC (safety, deadlock, liveness); TLC interleavings replayed on the real code through gated yield points; Go-side exhaustive schedules and free-running runs judged by TLC trace validation; -race stress",
        text="RegistryLock.tla transcribes root.go's lock/loop structure; TLC checks mutual exclusion, deadlock freedom, refinement of Registry.tla, "
             "the real-time guarantees of the statement and termination under fairness for 2-3 processes. Every block interleaving of every small program "
             "is executed on the real Root (goroutines gated at the verif yield points) and compared with the model block by block; schedules enumerated on the "
             "Go side and free-running executions recorded in lock order are judged by RegistryTrace.tla; a hook-free run under the Go race detector covers data races.",
        note="Trusted: TLC; the yield points are placed before each lock acquisition (checked: lock held at every in-lock point); race detector is dynamic. "
             "Exhaustive only within 2-3 processes x 1-2 operations.",
        design="DESIGN.md §6 C20",
    ),
}

EXEC_TECH = ("TLA+ oracle (Sem.tla) evaluated by TLC over exhaustively enumerated document families (ExecGen.tla) with every case replayed on the real code; "
             "random universes/documents executed on the real code and judged by TLC (ExecJudge.tla)")
EXEC_NOTE = ("Trusted: TLC, the renderer from abstract documents to request text, the harness resolvers (Resolver objects / AnyResolver) and their call log. "
             "Exhaustive only over the stated families of the fixed universe U-exec; random universes beyond it. Deviations of ggql from the statement that are "
             "recorded in known_findings.json are attributed by a second oracle M(K) computed by TLC, everything else is a violation.")
for pid, txt in {
    "C01": "data and operation choice of every case equal Sem!Response (selection semantics with fragment expansion, key merging, lists mirrored, leaf values, __typename)",
    "C06": "every single resolver call site of each request is made to fail in turn (pairs in the thorough tier), and where one root resolver is invoked several times for one response key each single invocation (family faultcall); the error paths (multiset) and the data must equal Sem's",
    "C09": "all 7x7 states of @skip/@include x both orders x field/inline/spread x two depths: response keys and resolver call log must equal Sem's",
    "C11": "sessions of MCReuse.tla (one parse, up to 3-4 resolves with every sequence of operation/variable choices) replayed on one real Executable: every response must equal Sem's for a fresh parse and the printed form must not change (action property ParsedUnchanged in the specification)",
    "C02": "the common-feature families executed on all strategies (Resolver objects, AnyResolver, reflection bound by name / RegisterType / @go) and on mixed graphs with every node assignment: each response must equal Sem's, and each call must be served by the strategy the precedence rule Sem!Via prescribes",
    "C08": "every container kind x type condition x concrete type (inline and named fragments, nested) on the reflection strategy in the three binding modes: data (incl. __typename) and call log must equal Sem's, whose fragment applicability is the relation GQLCore!Applies",
    "C10": "one defect injected per request (undefined field / undeclared argument / missing required argument / unknown, misplaced or ill-formed directive / undefined type condition) "
           "under every container kind: error coverage naming the offender, call log (offender never invoked) and sibling data must equal Sem's",
}.items():
    CLAIMED[pid] = dict(level="model_checking", technique=EXEC_TECH, text=txt, note=EXEC_NOTE, design="DESIGN.md §6 " + pid)

SCHEMA_TECH = ("TLA+ state machine of Root loading (Loader.tla over the abstract schemas of SchemaCore.tla, rules in SchemaRules.tla) model-checked with TLC "
               "(action property Atomic, invariants AsIfNeverHappened/OrderFree); every history TLC explores is replayed on a real Root and the schema read back through the API is compared with the prescribed one")
SCHEMA_NOTE = ("Trusted: TLC, the SDL renderer for abstract definitions, the read-back (public accessors plus three verif accessors for directives/schema). "
               "Exhaustive within the document pool / definition sets of spec/LoadUniverse.tla and MCArrange.tla.")
CLAIMED["C14"] = dict(level="model_checking", technique=SCHEMA_TECH, note=SCHEMA_NOTE, design="DESIGN.md §6 C14",
                      text="all histories of 3 (thorough 4) loads over 27 documents (valid, extend, schema blocks; one failing document per failure class incl. reader faults, each after valid content): after every load the verdict and the read-back schema must equal Loader!LoadResult - unchanged after a refused load")
CLAIMED["C16"] = dict(level="model_checking", technique=SCHEMA_TECH, note=SCHEMA_NOTE, design="DESIGN.md §6 C16",
                      text="every permutation x cut into <=3 loads x extend-move of 7 definition sets: TLC checks OrderFree on the specification, and each arrangement replayed on a real Root must read back as the canonical schema of the reference arrangement (same verdict, same types/members/wrappers/defaults/directive uses with defaults filled, same roots)")
CLAIMED["C13"] = dict(level="model_checking", technique="TLA+ rule catalogue (SchemaRules.tla) evaluated by TLC on exhaustively mutated base schemas (MCRules.tla); every mutated document loaded into a real Root", note=SCHEMA_NOTE, design="DESIGN.md §6 C13",
                      text="2 well-formed base schemas x every mutation of the catalogue at every applicable position: verdict, offender named by the error, and read-back of accepted documents must agree with SchemaRules!Violations / Loader!LoadResult (TLC also checks that every mutation is refused by the specification and every base accepted)")
CLAIMED["C17"] = dict(level="model_checking", technique="TLA+ introspection view (Introspect.tla) computed by TLC for every schema reached by the loader state machine; full introspection request executed on real roots of three kinds and compared", note=SCHEMA_NOTE, design="DESIGN.md §6 C17",
                      text="for every accepted schema of MCRules (bases and valid variants) and of the arrangements of MCArrange: the full introspection response with includeDeprecated true/false on roots served by reflection, a Resolver object and an installed root resolver must equal Introspect!Intro; __type on an unknown name is null")
COERCE_TECH = ("TLA+ coercion specification (Coerce.tla: the property S and the implementation-shaped design M with named deviations; TLC checks M({}) refines S) "
               "enumerated by TLC over named numeric points x Go kinds x type expressions (MCCoerce.tla), every case executed on the real code; random cases recorded and judged by CoerceJudge.tla")
COERCE_NOTE = ("Trusted: TLC, the harness' tables mapping named points to Go values of every kind (cross-checked at start-up against the tables in the spec), capturing resolvers. "
               "Numbers are a finite lattice of named boundary points; type expressions up to wrapper depth 3 (4 in the random direction).")
CLAIMED["C04"] = dict(level="model_checking", technique=COERCE_TECH, note=COERCE_NOTE, design="DESIGN.md §6 C04",
                      text="(type expression) x (value trees over 24 named numeric points, strings, symbols, null) x (literal / variable of each Go kind / variable default / nested in list or input object): the arguments the capturing resolver receives are compared by Go kind and value with Coerce!CoerceIn, or non-invocation plus the error entry when the specification rejects")
CLAIMED["C05"] = dict(level="model_checking", technique=COERCE_TECH, note=COERCE_NOTE, design="DESIGN.md §6 C05",
                      text="(declared leaf type incl. lists and typed slices) x (Go value kind x named point, numeric and non-numeric strings, wrong kinds, nil pointers, Symbol, time.Time): response data after WriteJSONValue + encoding/json must have the shape Coerce!CoerceOut prescribes (null plus one error where it cannot be represented)")
CLAIMED["C15"] = dict(level="model_checking", technique="TLC enumerates the textual cases (MCPrint.tla: strings over a character-class alphabet at every description and default site, numeric and nested defaults) with the outcome Loader.tla prescribes; each case goes through load / print / load / read-back / print on real roots and through ggqlgen -w/-e", note=SCHEMA_NOTE, design="DESIGN.md §6 C15",
                      text="for every enumerated accepted schema: the printed SDL (whole root and per type) is accepted by a fresh root, reads back as the same canonical schema, and prints to the same text again; ggqlgen -w and -e outputs define the same schema")
CLAIMED["C07"] = dict(level="model_checking", technique="TLA+ state machine of the reader's position bookkeeping (Scanner.tla) model-checked over all byte-class strings; responses of TLC-enumerated cases in 5 layouts recorded and judged by the TLA+ predicate Envelope!WellFormed (EnvelopeJudge.tla)",
                      note="Trusted: TLC, the lexeme splitter and skeleton extraction of the harness, encoding/json as the standard JSON parser. Columns are only bounded, not exact.", design="DESIGN.md §6 C07",
                      text="Scanner.tla: every stamped field position lies on the line of the token's first byte (exhaustive to length 6/8 over 5 byte classes); every recorded response is a well-formed envelope (keys, errors, message, path kinds, positive locations on the line of the offending key's lexeme, null/absent data when refused) and serialises to valid JSON that decodes to the same structure in all three indent modes")
CLAIMED["C12"] = dict(level="model_checking", design="DESIGN.md §6 C12",
    technique="TLA+ labelled-step model of the lazy reflection binding (LazyBind.tla): all interleavings of 2-3 requests model-checked (NoRace, deadlock, WriteOnce, isolation against the alone outcome); each mix and a 2/16/64-goroutine cold-root stress run free under the Go race detector with responses compared to the request run alone; race reports mapped to model labels; access logs with really-held locksets judged by LazyBindTrace.tla",
    text="every interleaving of 2 (thorough: 3) requests on a cold root in three binding worlds satisfies NoRace/NoDeadlock/WriteOnce/Isolated in the model; on the real code every mix and a cold-root stress with 2/16/64 goroutines runs under the race detector with each response equal to its alone baseline, and every logged access happens under the lockset the model prescribes",
    note="Trusted: TLC, the Go race detector (dynamic: absence of a report is evidence for the explored schedules only), TryLock based observation of held locks at the verif points. The gated replay of TLC interleavings planned in Part I was not built.")
CLAIMED["C18"] = dict(level="model_checking", design="DESIGN.md §6 C18",
    technique="token/character level TLA+ model of the SDL and JSON value writers and of the value reader plus a JSON grammar (ValueText.tla), checked by TLC over enumerated value families x 12 modes; every case replayed on the real writers/reader and encoding/json; random larger values recorded and judged by ValueTextJudge.tla",
    text="for every enumerated value tree (leaves over named integer/float points, strings over a 114-character alphabet, symbols, variables; empty and adjacent containers, depth <= 3) x indent {<0, 0, >0} x SDL/JSON x Sort: the real text equals the modelled text, reads back to the prescribed value through ParseValueString/ParseValue, and the JSON form is accepted by encoding/json and decodes to the same structure",
    note="Trusted: TLC, the harness' lexical splitter, encoding/json. Numbers are named points; map keys never hold invalid UTF-8 or NUL; harmless layout differences are reported as notes.")

CLAIMED["C03"] = dict(level="exploration", design="DESIGN.md §6 C03, Part II B.6",
    technique="TLA+ grammars and mutation actions (DocGen.tla/MCDocGen.tla) enumerated by TLC into inputs of the three languages, plus a TLA+ state machine of the resolver's recursion (ResolveDepth.tla over FragDocs.tla) model-checked for bounded depth; every enumerated input is run through every public entry point of the real code in isolated worker processes with a watchdog (prescribed outcome: returns); random longer derivations with token/byte mutations are recorded and judged by DocGenJudge.tla",
    text="exploration: all token strings up to length 2-4 over 24-token alphabets (incl. NUL, invalid UTF-8, lone quotes, unterminated comments), every grammar derivation up to 6-8 tokens with every single/double token mutation, the fragment-cycle documents of the recursion model, (variable type x default x use site) x variable maps over JSON-shaped values of depth <= 2, (field x argument states); each run through Parse*/Resolve*/ParseValue*/SDL/Write* on 4 kinds of root incl. faulty readers at every offset; no panic, stack overflow or 2 s watchdog expiry",
    note="Trusted: TLC, the isolating runner (worker death and watchdog attribution, reproduced alone in a fresh worker before it counts), the 2 s bound as 'bounded time'. Not decided: arbitrary byte sequences beyond the token alphabets and lengths (only sampled by random byte mutations).")

NOT_YET = {
}


def main():
    props = [json.loads(l) for l in open(os.path.join(VERIF, "properties.jsonl"))]
    hooks_commits = subprocess.run(["git", "-C", "/repo", "log", "--format=%H %s"], stdout=subprocess.PIPE, text=True).stdout
    hook_shas = [l.split()[0] for l in hooks_commits.splitlines() if l.split(" ", 1)[1].startswith("verif:")]
    checks = []
    na = []
    for p in props:
        pid = p["id"]
        if pid in CLAIMED:
            c = CLAIMED[pid]
            checks.append({
                "property_id": pid,
                "quick_cmd": "./check %s quick" % pid,
                "thorough_cmd": "./check %s thorough" % pid,
                "evidence_file": "/verif/evidence/%s.json" % pid,
                "replay_cmd_template": "./check replay {path}",
                "engine": "tlc+go-conformance",
                "level_claimed": {"category": c["level"], "text": c["text"], "design_ref": c["design"]},
                "level_note": c["note"],
                "technique": c["technique"],
            })
        else:
            na.append({"property_id": pid, "reason": NOT_YET.get(pid, "check not built yet in this round; specification module planned in DESIGN.md §6 (will be claimed once its TLA+ module and conformance harness exist)")})
    man = {
        "version": 1,
        "setup_cmd": "./tools/setup.sh",
        "hooks": {
            "guard": "verif (Go build tag)",
            "enable": "go build -tags verif (the harness under /verif/harness is always built with it; /repo is used through a replace directive, so the current working tree is compiled on every run)",
            "baseline_off_cmd": "/verif/tools/baseline_off.sh",
            "source_commits": hook_shas,
            "add_only": True,
        },
        "engines": [
            {"name": "tlc+go-conformance", "path": "/verif/check",
             "serves_properties": sorted(CLAIMED),
             "kind_free_text": "explicit TLA+ specifications under /verif/spec checked with TLC 1.8; behaviours generated by TLC are replayed into the real code and behaviours recorded from the real code are judged by TLC trace specifications"},
        ],
        "checks": checks,
        "not_applicable": na,
        "notes": "Exit 2 from a check means the machinery failed (TLC error in the model, build failure, timeout) and is never a verdict about ggql. known_findings.json lists genuine defects recorded rather than repaired.",
    }
    with open(os.path.join(VERIF, "MANIFEST.json"), "w") as fh:
        json.dump(man, fh, indent=1)
        fh.write("\n")
    print("MANIFEST.json: %d checks, %d not_applicable" % (len(checks), len(na)))


if __name__ == "__main__":
    main()
