#!/bin/sh
# Runs the repository's own test suite with the verif guard OFF and checks that
# every test of the stable baseline (/root/.vp/BASELINE.json) passes.
export GOFLAGS=-mod=mod GOPROXY=off GOSUMDB=off GOTOOLCHAIN=local
cd "${VERIF_REPO:-/repo}" || exit 2
out=$(mktemp)
go test -json -vet=off -count=1 -timeout 25m ./... > "$out" 2>&1
python3 - "$out" <<'PY'
import json, sys
passed = set()
failed = set()
for line in open(sys.argv[1]):
    try:
        r = json.loads(line)
    except Exception:
        continue
    if r.get("Test") and r.get("Action") in ("pass", "fail"):
        (passed if r["Action"] == "pass" else failed).add(r["Package"] + "::" + r["Test"])
try:
    base = json.load(open("/root/.vp/BASELINE.json"))["stable_pass"]
except Exception:
    base = None
if base is None:
    print("baseline file not available; %d passed, %d failed" % (len(passed), len(failed)))
    sys.exit(0 if len(passed) >= 238 else 1)
missing = [t for t in base if t not in passed]
print("baseline (guard off): %d/%d stable tests pass; %d other failures" % (len(base) - len(missing), len(base), len(failed - set(base))))
for t in missing:
    print("NOT PASSING:", t)
sys.exit(1 if missing else 0)
PY
rc=$?
rm -f "$out"
exit $rc
