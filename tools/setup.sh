#!/bin/sh
# Offline setup: warm the Go build cache for the harness; check the tools are there.
export GOFLAGS=-mod=mod GOPROXY=off GOSUMDB=off GOTOOLCHAIN=local
cd "$(dirname "$0")/../harness" || exit 1
go build -tags verif ./... || exit 1
command -v tlc >/dev/null || { echo "tlc not on PATH"; exit 1; }
command -v python3 >/dev/null || { echo "python3 missing"; exit 1; }
echo "setup ok"
