#!/bin/sh
# tools/seed_intake.sh <PROP>: copy the seeds a sub-agent wrote to /tmp/seedgen/out-<PROP>/ into seeded/, confirm each in a
# scratch worktree (compiles, suite passes, demo fails with / passes without) and run the property's check against it.
P=$1
cd "$(dirname "$0")/.." || exit 2
for d in /tmp/seedgen/out-$P/$P-*; do
  [ -d "$d" ] || continue
  id=$(basename "$d")
  [ -d seeded/$id ] && { echo "$id exists"; continue; }
  mkdir -p seeded/$id && cp "$d"/patch.diff "$d"/demo_test.go "$d"/meta.json seeded/$id/
  echo "== $id"; python3 tools/seedtest.py confirm seeded/$id | tr -d '\n '; echo
done
python3 tools/seed_matrix.py -j 2 $(ls -d seeded/$P-* | xargs -n1 basename | while read id; do grep -q "\"$id\"" seeded/results.json 2>/dev/null || echo $id; done) | cut -c1-700
