#!/usr/bin/env python3
"""Run checks against a seeded change without touching /repo.

  tools/seedtest.py confirm <dir>            verify patch.diff + demo_test.go in a scratch worktree
  tools/seedtest.py run <dir> <check> [tier] apply patch in a scratch worktree and run ./check there (VERIF_REPO)
"""
import json
import os
import shutil
import subprocess
import sys
import tempfile

VERIF = os.path.dirname(os.path.dirname(os.path.abspath(__file__)))
ENV = dict(os.environ, GOFLAGS="-mod=mod", GOPROXY="off", GOSUMDB="off", GOTOOLCHAIN="local")


def sh(cmd, cwd=None, env=None, timeout=3600):
    p = subprocess.run(cmd, cwd=cwd, env=env or ENV, shell=isinstance(cmd, str), stdout=subprocess.PIPE,
                       stderr=subprocess.STDOUT, text=True, timeout=timeout)
    return p.returncode, p.stdout


def worktree():
    d = tempfile.mkdtemp(prefix="seedwt-")
    os.rmdir(d)
    rc, out = sh(["git", "-C", "/repo", "worktree", "add", "-q", "--detach", d, "HEAD"])
    if rc != 0:
        raise SystemExit("cannot create worktree: " + out)
    return d


def drop(d):
    sh(["git", "-C", "/repo", "worktree", "remove", "--force", d])
    shutil.rmtree(d, ignore_errors=True)


def confirm(sd):
    sd = os.path.abspath(sd)
    wt = worktree()
    res = {}
    try:
        demo = os.path.join(sd, "demo_test.go")
        shutil.copy(demo, os.path.join(wt, "pkg/ggql/zz_seed_demo_test.go"))
        rc, out = sh("go test -vet=off -count=1 -run 'C[0-9][0-9]|Seed|Demo' ./pkg/ggql", cwd=wt)
        meta = json.load(open(os.path.join(sd, "meta.json")))
        demo_cmd = meta.get("demo", "go test -run Seed ./pkg/ggql")
        if "-vet=off" not in demo_cmd:
            demo_cmd = demo_cmd.replace("go test", "go test -vet=off -count=1")
        rc, out = sh(demo_cmd, cwd=wt)
        res["demo_passes_without_change"] = rc == 0
        rc, out = sh(["git", "apply", os.path.join(sd, "patch.diff")], cwd=wt)
        res["patch_applies"] = rc == 0
        rc1, _ = sh("go build ./... ", cwd=wt)
        rc2, _ = sh("go build -tags verif ./...", cwd=wt)
        res["compiles"] = rc1 == 0 and rc2 == 0
        rc, out = sh(demo_cmd, cwd=wt)
        res["demo_fails_with_change"] = rc != 0
        os.remove(os.path.join(wt, "pkg/ggql/zz_seed_demo_test.go"))
        rc, out = sh("go test -vet=off -count=1 -json ./pkg/... ", cwd=wt)
        failed = set()
        for line in out.splitlines():
            try:
                r = json.loads(line)
            except Exception:
                continue
            if r.get("Action") == "fail" and r.get("Test"):
                failed.add(r["Test"])
        res["suite_failures"] = sorted(failed)
        res["suite_ok"] = failed <= {"TestRootParseFSErr", "TestParseHTTP"}
    finally:
        drop(wt)
    print(json.dumps(res, indent=1))
    return res


def run(sd, check, tier="quick"):
    sd = os.path.abspath(sd)
    wt = worktree()
    try:
        rc, out = sh(["git", "apply", os.path.join(sd, "patch.diff")], cwd=wt)
        if rc != 0:
            raise SystemExit("patch does not apply: " + out)
        env = dict(ENV, VERIF_REPO=wt)
        rc, out = sh([os.path.join(VERIF, "check"), check, tier], cwd=VERIF, env=env, timeout=7200)
        lines = [l[:300] for l in out.splitlines() if l.startswith(("VIOLATION", "OK ", "KNOWN", "MACHINERY", "  mismatch"))]
        print("\n".join(lines[-6:]))
        print("exit", rc)
        return rc
    finally:
        drop(wt)


if __name__ == "__main__":
    if sys.argv[1] == "confirm":
        confirm(sys.argv[2])
    else:
        sys.exit(run(*sys.argv[2:]))
